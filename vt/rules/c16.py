"""C16 - any valid font info compiles; explicit values win, absent ones fall back."""

from __future__ import annotations

import ast
from typing import Dict, List, Optional, Set, Tuple

from ..core import astutil as A
from ..core.index import AnalysisError, FuncInfo, external_module
from ..selftest import M
from .common import (branch_values, subscript_stores, may_conds, atoms_of, is_early_exit_guard, BASE_OUTLINE, OTF_OUTLINE, T, attr_stores, calls_named, conds, entails, every_origin, fold_body,
                     key, need, where)

FID = "ufo2ft.fontInfoData"
GETATTR = "ufo2ft.fontInfoData.getAttrWithFallback"

# fontinfo attributes that have no place in an OpenType binary built by ufo2ft
# (reviewed one by one against the UFO3 spec; anything else must be consumed)
REVIEWED_UNUSED = {
    "guidelines": "design-time aid",
    "note": "design-time note",
    "year": "deprecated in UFO3, not an OpenType field",
    "macintoshFONDFamilyID": "Mac FOND resource, not in sfnt output",
    "macintoshFONDName": "Mac FOND resource, not in sfnt output",
    "postscriptUniqueID": "Type 1 UniqueID, deprecated; not written to CFF by design",
    "postscriptSlantAngle": "Type 1 only",
    "postscriptDefaultCharacter": "Type 1 / PFM only",
    "postscriptWindowsCharacterSet": "PFM only",
    "openTypeHheaLineGap": None,  # placeholder removed below if consumed
    "woffMajorVersion": "WOFF wrapper metadata (not an sfnt table)",
    "woffMinorVersion": "WOFF wrapper metadata",
    "woffMetadataUniqueID": "WOFF wrapper metadata",
    "woffMetadataVendor": "WOFF wrapper metadata",
    "woffMetadataCredits": "WOFF wrapper metadata",
    "woffMetadataDescription": "WOFF wrapper metadata",
    "woffMetadataLicense": "WOFF wrapper metadata",
    "woffMetadataCopyright": "WOFF wrapper metadata",
    "woffMetadataTrademark": "WOFF wrapper metadata",
    "woffMetadataLicensee": "WOFF wrapper metadata",
    "woffMetadataExtensions": "WOFF wrapper metadata",
    "openTypeOS2WinAscent": None,
    "openTypeNameWWSFamilyName": None,
}
REVIEWED_UNUSED = {k: v for k, v in REVIEWED_UNUSED.items() if v}


def run(prog, chk):
    chk.decided += [
        "every attribute name that can reach getAttrWithFallback has a fallback entry; the two tables are disjoint (R16.1)",
        "the fallback dependency graph is acyclic (R16.2)",
        "PostScript-name sanitiser: the exception / space / printable tests apply to the value that is appended, after its last redefinition (R16.3)",
        "generated PostScript name goes through the sanitiser without spaces (R16.3c)",
        "every string reaching a CFF string field has been reduced by the sanitiser (R16.3b)",
        "every info-derived table field of the base builders is forwarded by the variable-font info override (R16.4)",
        "every UFO3 fontinfo attribute is consumed by a builder or is on the reviewed not-in-OpenType list (R16.5)",
        "each computed fallback consults exactly its documented source attributes (R16.6)",
        "the object returned by getAttrWithFallback (the info's own value or the shared default) is never modified in place (R16.7)",
        "font info values are compared with None, never tested by truthiness, except reviewed string / list attributes: an explicit 0 wins (R16.8)",
    ]
    chk.decided += ["CFF hint data: the stem entries (StemSnapH / StemSnapV / StdHW / StdVW) are written under tests on the stem attributes alone and the blues entries under tests on the "
                    "blues attributes alone - explicit stems are not dropped because the font has no alignment zones, nor the other way round (R16.12)"]
    chk.decided += ["OS/2 sub / superscript metrics: an absent superscript size falls back to the *resolved* subscript size and an absent x offset is derived from the *resolved* y offset of the same "
                    "table (an explicit sibling value carries over), as the fallback chain of setupTable_OS2 defines it (R16.13)"]
    chk.decided += ["head.created is the font info's openTypeHeadCreated (explicit or fallback) converted to a time value and shifted to the Mac epoch - nothing else is applied to it (no clamping "
                    "against the build time) (R16.14)"]
    chk.not_decided += ["the field values themselves", "which code points the Unicode database decomposes to ASCII",
                        "that the saved font reloads"]
    static, special = fallback_tables(prog, chk)
    sites, consumed = r161(prog, chk, static, special)
    chk.decided += ["every bit the UFO specification allows in a bit-list attribute reaches its field: intListToNum windows cover the whole valid range (R16.11)", "a built name record is skipped only when a record with the same four keys exists (R16.10)", "style-map bits follow the OpenType assignment (R16.9)"]
    chk.guard(r162, prog, chk, special)
    chk.guard(r166, prog, chk, special)
    chk.guard(r163, prog, chk)
    chk.guard(r163b, prog, chk)
    chk.guard(r164, prog, chk)
    chk.guard(r165, prog, chk, consumed)
    chk.guard(r167, prog, chk)
    chk.guard(r168, prog, chk)
    chk.guard(r169, prog, chk)
    chk.guard(r1610, prog, chk)
    chk.guard(r1611, prog, chk)
    chk.guard(r1612, prog, chk)
    chk.guard(r1613, prog, chk)
    chk.guard(r1614, prog, chk)


# ------------------------------------------------------------------------- tables
def fallback_tables(prog, chk):
    mi = prog.ix.get_module(FID)

    def dict_kw(name):
        e = mi.constants.get(name)
        if isinstance(e, ast.Call) and A.callee_name(e) == "dict" and not e.args:
            return {k.arg: k.value for k in e.keywords if k.arg}
        if isinstance(e, ast.Dict):
            return {ix_const(k): v for k, v in zip(e.keys, e.values)}
        raise AnalysisError(f"cannot interpret {FID}.{name}: expected a dict(...) literal")

    def ix_const(k):
        if isinstance(k, ast.Constant):
            return k.value
        raise AnalysisError("non-literal key in fallback table")

    static = dict_kw("staticFallbackData")
    special = {}
    for k, v in dict_kw("specialFallbacks").items():
        fn = mi.functions.get(v.id) if isinstance(v, ast.Name) else None
        chk.ob("R16.1", f"specialFallbacks[{k}] is a function of one argument", fn is not None and len(fn.params()) == 1,
               mi.relpath, detail=T(v), message=f"specialFallbacks[{k!r}] is not a module function taking the info object")
        if fn is not None:
            special[k] = fn
    both = set(static) & set(special)
    chk.ob("R16.1", "fallback tables are disjoint", not both, mi.relpath, detail=f"{len(static)} static, {len(special)} special",
           message=f"attributes listed in both fallback tables: {sorted(both)} (the static value is unreachable)")
    return static, special


# --------------------------------------------------------------- attribute-name folding
def _callers(prog, fi: FuncInfo):
    out = []
    for g in prog.ix.functions.values():
        for c in calls_named(g, fi.name):
            out.append((g, c))
    return out


def _top_stmt_chain(prog, fi, node):
    return prog.ix.enclosing_stmt(node)


def possible_values(prog, fi: FuncInfo, expr: ast.AST, _depth=0):
    """Set of constant values `expr` can take at its program point, by constant
    propagation through the function prefix, specialised per call site when a
    parameter is involved.  None when it cannot be decided."""
    ix = prog.ix
    stmt = prog.ix.enclosing_stmt(expr)
    cls = prog._class_ctx(fi)

    def with_env(env0):
        env = fold_body(prog, fi, env0, stop_at=stmt)
        # loop / comprehension variables
        if isinstance(expr, ast.Name) and expr.id not in env:
            defs = prog.reaching(fi, expr.id, expr)
            vals = set()
            for d in defs:
                if d.kind not in ("for", "comp"):
                    return None
                it = d.value
                comp = None
                if isinstance(it, ast.Call) and isinstance(it.func, ast.Attribute) and it.func.attr in ("items", "values", "keys") and not it.args:
                    comp, it = it.func.attr, it.func.value
                try:
                    seq = ix.const_eval(fi.module, it, cls, env)
                except (ValueError, TypeError, KeyError, AttributeError, IndexError):
                    # a dict display with literal keys and computed values: the keys are still known
                    lit = it
                    if isinstance(lit, ast.Name):
                        dd = prog.reaching(fi, lit.id, lit)
                        lit = dd[0].value if len(dd) == 1 and dd[0].kind == "assign" and dd[0].element()[1] is None else None
                    if isinstance(lit, ast.Dict) and lit.keys and all(isinstance(k, ast.Constant) for k in lit.keys) and comp in (None, "keys", "items"):
                        if comp == "items":
                            tn = d.target.elts if isinstance(d.target, (ast.Tuple, ast.List)) else None
                            if not tn or len(tn) != 2 or not (isinstance(tn[0], ast.Name) and tn[0].id == expr.id):
                                return None
                        vals.update(k.value for k in lit.keys)
                        continue
                    return None
                if isinstance(seq, dict):
                    if comp in (None, "keys"):
                        items = list(seq.keys())
                    elif comp == "values":
                        items = list(seq.values())
                    else:
                        tn = d.target.elts if isinstance(d.target, (ast.Tuple, ast.List)) else None
                        if not tn or len(tn) != 2:
                            return None
                        idx = [i for i, t in enumerate(tn) if isinstance(t, ast.Name) and t.id == expr.id]
                        if not idx:
                            return None
                        items = [kv[idx[0]] for kv in seq.items()]
                else:
                    items = list(seq)
                    if isinstance(d.target, (ast.Tuple, ast.List)):
                        idx = [i for i, t in enumerate(d.target.elts) if isinstance(t, ast.Name) and t.id == expr.id]
                        if not idx:
                            return None
                        items = [x[idx[0]] for x in items]
                vals.update(items)
            return vals if defs else None
        try:
            return {ix.const_eval(fi.module, expr, cls, env)}
        except (ValueError, TypeError, KeyError, AttributeError, IndexError):
            pass
        # an expression over loop variables ('postscript' + key for key in (...)): one value per combination
        if isinstance(expr, ast.Name):
            return None
        loopvars = {}
        for nm in {n.id: n for n in ast.walk(expr) if isinstance(n, ast.Name) and isinstance(n.ctx, ast.Load) and n.id not in env}.values():
            ds = prog.reaching(fi, nm.id, nm)
            if not ds or any(d.kind not in ("for", "comp") for d in ds):
                continue
            pv = with_env_name(nm, env)
            if pv is None or len(pv) > 64:
                return None
            loopvars[nm.id] = sorted(pv, key=repr)
        if not loopvars:
            return None
        import itertools
        out = set()
        names = sorted(loopvars)
        combos = list(itertools.product(*[loopvars[n] for n in names]))
        if len(combos) > 256:
            return None
        for combo in combos:
            env2 = dict(env)
            env2.update(zip(names, combo))
            try:
                out.add(ix.const_eval(fi.module, expr, cls, env2))
            except (ValueError, TypeError, KeyError, AttributeError, IndexError):
                return None
        return out

    def with_env_name(name_node, env):
        return possible_values(prog, fi, name_node, _depth)

    r = with_env({})
    if r is not None:
        return r
    if _depth >= 2:
        return None
    # specialise on call sites
    params = [p for p in fi.params() if not p.startswith("*")]
    if fi.cls is not None and not fi.is_static and params:
        params = params[1:]
    callers = _callers(prog, fi)
    if not callers:
        return None
    out = set()
    for g, c in callers:
        env0 = {}
        for i, a in enumerate(c.args):
            if i < len(params):
                v = possible_values(prog, g, a, _depth + 1)
                if v is not None and len(v) == 1:
                    env0[params[i]] = next(iter(v))
        for k in c.keywords:
            if k.arg in params:
                v = possible_values(prog, g, k.value, _depth + 1)
                if v is not None and len(v) == 1:
                    env0[k.arg] = next(iter(v))
        r = with_env(env0)
        if r is None:
            return None
        out |= r
    return out


# ----------------------------------------------------------------------------- R16.1
def attr_sites(prog):
    out = []
    for fi in prog.ix.functions.values():
        for c in A.body_nodes(fi.node):
            if isinstance(c, ast.Call) and prog.is_call_to(fi, c, GETATTR) and len(c.args) >= 2:
                out.append((fi, c))
    return out


def r161(prog, chk, static, special):
    sites = attr_sites(prog)
    requested: Dict[str, List[str]] = {}
    for fi, c in sites:
        vals = possible_values(prog, fi, c.args[1])
        if vals is None or not all(isinstance(v, str) for v in vals):
            chk.ob("R16.1", key(fi, c), False, where(fi, c),
                   message=f"cannot determine which attribute name reaches getAttrWithFallback here ({T(c.args[1])}): totality of the fallback lookup is not decidable for this call")
            continue
        for v in vals:
            requested.setdefault(v, []).append(where(fi, c))
    known = set(static) | set(special)
    for name in sorted(requested):
        chk.ob("R16.1", f"attribute {name}", name in known, requested[name][0],
               detail=f"requested at {len(requested[name])} site(s); fallback: {'special' if name in special else 'static' if name in static else 'NONE'}",
               message=f"getAttrWithFallback can be asked for '{name}' which has no fallback entry: KeyError when the attribute is absent")
    chk.extra["getAttrWithFallback_sites"] = len(sites)
    chk.extra["distinct_attributes_requested"] = len(requested)
    chk.minimum("R16.1", 70)
    return sites, set(requested)


# ----------------------------------------------------------------------------- R16.2
def r162(prog, chk, special):
    edges: Dict[str, Set[str]] = {}
    for attr, fn in special.items():
        deps = set()
        seen = set()
        work = [fn]
        while work:
            f = work.pop()
            if f.qname in seen:
                continue
            seen.add(f.qname)
            for c in A.body_nodes(f.node):
                if not isinstance(c, ast.Call):
                    continue
                if prog.is_call_to(f, c, GETATTR) and len(c.args) >= 2:
                    vals = possible_values(prog, f, c.args[1])
                    if vals is None:
                        raise AnalysisError(f"cannot fold attribute requested by fallback {f.short}")
                    deps |= {v for v in vals}
                else:
                    ts, how = prog.resolve_callee(f, c.func)
                    for t in ts:
                        if isinstance(t, FuncInfo) and t.module.name == FID and how in ("exact",):
                            work.append(t)
        edges[attr] = deps
    # cycle detection (only special attributes have outgoing edges)
    color = {}
    cycles = []

    def dfs(a, path):
        color[a] = 1
        for b in sorted(edges.get(a, ())):
            if b not in edges:
                continue
            if color.get(b) == 1:
                cycles.append(path[path.index(b):] + [b] if b in path else [a, b])
            elif color.get(b) is None:
                dfs(b, path + [b])
        color[a] = 2

    for a in sorted(edges):
        if color.get(a) is None:
            dfs(a, [a])
    cyc_nodes = {n for c in cycles for n in c}
    for a in sorted(edges):
        chk.ob("R16.2", f"fallback {a} terminates", a not in cyc_nodes, special[a].loc(),
               detail=f"requests {sorted(edges[a])}",
               message=f"fallback of '{a}' is on a cycle {[c for c in cycles if a in c][:1]}: infinite recursion when the attributes are absent")
    chk.extra["fallback_graph_edges"] = sum(len(v) for v in edges.values())
    chk.minimum("R16.2", 25)


# ----------------------------------------------------------------------------- R16.6
# Documented sources of every computed fallback (UFO3 / ufo2ft docstrings, reviewed one
# by one against the `Fallback to *...*` text of each function on 2026-10-02).  Key:
# attribute -> (attributes requested through getAttrWithFallback, raw info.<attr> reads).
DOCUMENTED_FALLBACK_SOURCES = {
    "ascender": (["unitsPerEm"], []),
    "descender": (["unitsPerEm"], []),
    "capHeight": (["unitsPerEm"], []),
    "xHeight": (["unitsPerEm"], []),
    "styleMapFamilyName": (["openTypeNamePreferredFamilyName", "openTypeNamePreferredSubfamilyName"], ["styleMapStyleName"]),
    "styleMapStyleName": (["openTypeNamePreferredSubfamilyName"], []),
    "openTypeHeadCreated": ([], []),
    "openTypeHheaAscender": (["ascender", "openTypeOS2TypoLineGap"], []),
    "openTypeHheaDescender": (["descender"], []),
    "openTypeHheaCaretSlopeRise": (["italicAngle", "unitsPerEm"], ["openTypeHheaCaretSlopeRun"]),
    "openTypeHheaCaretSlopeRun": (["italicAngle", "openTypeHheaCaretSlopeRise"], []),
    "openTypeNameVersion": (["versionMajor", "versionMinor"], []),
    "openTypeNameUniqueID": (["openTypeNameVersion", "openTypeOS2VendorID", "postscriptFontName"], []),
    "openTypeNamePreferredFamilyName": (["familyName"], []),
    "openTypeNamePreferredSubfamilyName": (["styleName"], []),
    "openTypeNameWWSFamilyName": ([], []),
    "openTypeNameWWSSubfamilyName": ([], []),
    "openTypeOS2TypoAscender": (["ascender"], []),
    "openTypeOS2TypoDescender": (["descender"], []),
    "openTypeOS2TypoLineGap": (["ascender", "descender", "unitsPerEm"], []),
    "openTypeOS2WinAscent": (["ascender", "openTypeOS2TypoLineGap"], []),
    "openTypeOS2WinDescent": (["descender"], []),
    "postscriptFontName": (["openTypeNamePreferredFamilyName", "openTypeNamePreferredSubfamilyName"], []),
    "postscriptFullName": (["openTypeNamePreferredFamilyName", "openTypeNamePreferredSubfamilyName"], []),
    "postscriptSlantAngle": (["italicAngle"], []),
    "postscriptUnderlineThickness": (["unitsPerEm"], []),
    "postscriptUnderlinePosition": (["unitsPerEm"], []),
    "postscriptBlueScale": (["postscriptBlueValues", "postscriptOtherBlues"], []),
}


def r166(prog, chk, special):
    """An absent attribute is filled from its *documented* sources: the attributes a
    fallback function consults are exactly the reviewed ones.  (A fallback that starts
    to consult another attribute makes an explicit value of that attribute leak into
    an unrelated field.)"""
    for attr, fn in sorted(special.items()):
        req, raw = set(), set()
        seen, work = set(), [fn]
        while work:
            f = work.pop()
            if f.qname in seen:
                continue
            seen.add(f.qname)
            pinfo = f.params()[0] if f.params() else None
            for n in A.body_nodes(f.node):
                if isinstance(n, ast.Call) and prog.is_call_to(f, n, GETATTR) and len(n.args) >= 2:
                    req |= set(possible_values(prog, f, n.args[1]) or {"<unresolved>"})
                elif isinstance(n, ast.Attribute) and isinstance(n.value, ast.Name) and n.value.id == pinfo and isinstance(n.ctx, ast.Load):
                    raw.add(n.attr)
                elif isinstance(n, ast.Call) and A.callee_name(n) in ("getattr", "hasattr") and len(n.args) >= 2 \
                        and isinstance(n.args[0], ast.Name) and n.args[0].id == pinfo and isinstance(n.args[1], ast.Constant):
                    raw.add(n.args[1].value)
                elif isinstance(n, ast.Call):
                    ts, how = prog.resolve_callee(f, n.func)
                    for t in ts:
                        if isinstance(t, FuncInfo) and t.module.name == FID and how == "exact" and t.name != "getAttrWithFallback":
                            work.append(t)
        doc = DOCUMENTED_FALLBACK_SOURCES.get(attr)
        if doc is None:
            chk.ob("R16.6", f"fallback {attr} has reviewed sources", False, fn.loc(),
                   message=f"new computed fallback '{attr}' ({fn.short}) has no reviewed list of documented sources")
            continue
        extra = (req - set(doc[0])) | (raw - set(doc[1]) - set(doc[0]))
        missing = set(doc[0]) - req
        ok = not extra and not missing
        chk.ob("R16.6", f"fallback {attr} consults its documented sources", ok, fn.loc(),
               detail=f"requests {sorted(req)}; raw reads {sorted(raw)}",
               message=f"fallback of '{attr}' consults {sorted(extra) or ''}{' and no longer ' + str(sorted(missing)) if missing else ''}: "
                       f"documented sources are {doc[0]}; an explicit value of an undocumented source leaks into '{attr}' when it is absent")
    chk.minimum("R16.6", 25)


# ----------------------------------------------------------------------------- R16.3
def _char_set_value(prog, mi, expr):
    try:
        v = prog.ix.const_eval(mi, expr)
    except ValueError:
        # {chr(i) for i in range(33, 127)}
        if isinstance(expr, ast.SetComp) and T(expr.elt).startswith("chr("):
            g = expr.generators[0]
            if isinstance(g.iter, ast.Call) and A.callee_name(g.iter) == "range" and len(g.iter.args) == 2:
                lo, hi = (prog.ix.const_eval(mi, a) for a in g.iter.args)
                return {chr(i) for i in range(lo, hi)}
        return None
    if isinstance(v, str):
        return set(v)
    if isinstance(v, (set, frozenset, list, tuple)):
        return set(v)
    return None


def r163(prog, chk):
    mi = prog.ix.get_module(FID)
    fi = prog.ix.get_func(f"{FID}:normalizeStringForPostscript")
    params = fi.params()
    need(len(params) >= 2, f"cannot interpret {fi.short}")
    allow = params[1]
    # classify module-level character sets by VALUE (names are free to change)
    exc_names, allowed_names = set(), set()
    for name, e in mi.constants.items():
        v = _char_set_value(prog, mi, e)
        if v is None:
            continue
        if v == set("[](){}<>/%"):
            exc_names.add(name)
        if v == {chr(i) for i in range(33, 127)}:
            allowed_names.add(name)
    need(exc_names and allowed_names, f"cannot interpret {FID}: character sets not found")
    ret = [r for r in A.returns_of(fi.node) if r.value is not None]
    # the accumulated list: the object joined in the return value
    acc = None
    for r in ret:
        for n in ast.walk(r.value):
            if isinstance(n, ast.Call) and A.callee_name(n) == "join" and n.args and isinstance(n.args[0], ast.Name):
                acc = n.args[0].id
    need(acc is not None, f"cannot interpret {fi.short}: result is not ''.join(<list>)")
    sinks = [c for c in calls_named(fi, "append", "extend") if isinstance(c.func.value, ast.Name) and c.func.value.id == acc]
    need(sinks, f"cannot interpret {fi.short}: nothing is appended to the result")
    cfg = prog.cfg(fi)
    for s in sinks:
        if A.callee_name(s) == "extend" or not isinstance(s.args[0], ast.Name):
            chk.ob("R16.3", key(fi, s), False, where(fi, s),
                   message=f"{T(s)}: characters are added to the PostScript string without a per-character test")
            continue
        v = s.args[0].id
        defs_at_sink = {id(d.binder) for d in prog.reaching(fi, v, s)}

        def atomize(e):
            p = A.compare_parts(e)
            if p is not None:
                l, op, r = p
                if isinstance(l, ast.Name) and l.id == v:
                    if isinstance(op, (ast.Eq, ast.NotEq)) and A.is_const(r, " "):
                        return ("space", isinstance(op, ast.Eq))
                    if isinstance(op, (ast.In, ast.NotIn)) and isinstance(r, ast.Name):
                        if r.id in exc_names:
                            return ("exc", isinstance(op, ast.In))
                        if r.id in allowed_names:
                            return ("allowed", isinstance(op, ast.In))
            if isinstance(e, ast.Name) and e.id == allow:
                return ("allowSpaces", True)
            return None

        stable, unstable = [], []
        for c in conds(prog, fi, s):
            if c.polarity not in (True, False):
                continue
            mentions_v = any(isinstance(n, ast.Name) and n.id == v for n in ast.walk(c.test))
            if mentions_v:
                d_at = {id(d.binder) for d in prog.reaching(fi, v, c.loc)}
                if d_at != defs_at_sink:
                    unstable.append(c)
                    continue
            stable.append(c)
        goal = lambda env: (env["space"] and env["allowSpaces"]) or ((not env["space"]) and (not env["exc"]) and env["allowed"])
        cons = lambda env: not (env["space"] and (env["exc"] or env["allowed"])) and not (env["exc"] and not env["allowed"])
        ok = entails(stable, atomize, goal, cons, goal_atoms=("space", "exc", "allowed", "allowSpaces"))
        chk.ob("R16.3", key(fi, s), ok, where(fi, s),
               detail=f"guards applying to the appended value: {[T(c.test, 50) + '=' + str(c.polarity) for c in stable]}; "
                      f"guards evaluated before a redefinition (ignored): {[T(c.test, 50) for c in unstable]}",
               message="a character can be appended to the PostScript string without having passed the space / []{}<>()/% / "
                       "printable-ASCII tests in its final form (the tests run before the NFKD / ASCII-replace redefinition)")
    chk.minimum("R16.3", 1)
    # R16.3c generated PostScript name is sanitised without spaces
    fb = prog.ix.get_func(f"{FID}:postscriptFontNameFallback")
    nn = prog.ix.get_func(f"{FID}:normalizeNameForPostscript")

    def no_space_call(f, e):
        if not isinstance(e, ast.Call):
            return False
        if prog.is_call_to(f, e, f"{FID}.normalizeNameForPostscript"):
            return True
        if prog.is_call_to(f, e, f"{FID}.normalizeStringForPostscript"):
            a = A.arg_at(e, 1, allow)
            return a is not None and A.is_const(a, False)
        return False

    for f in (fb, nn):
        rets = [r for r in A.returns_of(f.node)]
        ok = bool(rets) and all(r.value is not None and every_origin(prog, f, r.value, lambda e, ff: no_space_call(ff, e), allow_const=False)[0] for r in rets)
        chk.ob("R16.3c", key(f, "returns sanitised name without spaces"), ok, where(f),
               detail="return value is normalizeStringForPostscript(..., allowSpaces=False)",
               message=f"{f.short} can return a name that has not been through the PostScript sanitiser with spaces removed")
    chk.minimum("R16.3c", 2)


# ----------------------------------------------------------------------------- R16.3b
CFF_STRING_FIELDS = ("Notice", "Copyright", "FullName", "FamilyName", "Weight", "version")


def _reduced(prog, fi, e) -> bool:
    if isinstance(e, ast.Call) and prog.is_call_to(fi, e, f"{FID}.normalizeStringForPostscript", f"{FID}.normalizeNameForPostscript"):
        return True
    if isinstance(e, ast.BinOp) and isinstance(e.op, ast.Mod) and isinstance(e.left, ast.Constant) and isinstance(e.left.value, str):
        import re
        return all(m in "di" for m in re.findall(r"%[-0-9.]*([a-zA-Z])", e.left.value))
    return False


def r163b(prog, chk):
    fi = prog.ix.get_method(OTF_OUTLINE, "setupTable_CFF", own=True)
    n = 0
    for fld in CFF_STRING_FIELDS:
        for st, t, v in attr_stores(fi, fld):
            n += 1
            ok, bad = every_origin(prog, fi, v, lambda e, f: _reduced(prog, f, e), falsy_ok=True)
            chk.ob("R16.3b", f"{fi.short}|topDict.{fld}", ok, where(fi, st),
                   detail=f"un-reduced origins: {bad}" if bad else "every origin reduced / numeric",
                   message=f"CFF top-dict string {fld} can hold characters CFF cannot encode: value comes un-reduced from {bad}")
    for c in calls_named(fi, "append"):
        if isinstance(c.func.value, ast.Attribute) and c.func.value.attr == "fontNames":
            n += 1
            ok, bad = every_origin(prog, fi, c.args[0], lambda e, f: _reduced(prog, f, e), falsy_ok=True)
            chk.ob("R16.3b", f"{fi.short}|cff.fontNames", ok, where(fi, c),
                   detail=f"un-reduced origins: {bad}" if bad else "reduced",
                   message=f"CFF font name can hold characters CFF cannot encode: value comes un-reduced from {bad}")
    need(n >= 7, f"cannot interpret {fi.short}: CFF string sinks not found ({n})")
    chk.minimum("R16.3b", 7)


# ----------------------------------------------------------------------------- R16.4
def _info_tainted_fields(prog, fi: FuncInfo) -> Dict[str, ast.AST]:
    """Attribute names stored on a *table object* in fi whose value is derived
    from font info (explicit flow through locals, implicit flow through
    info-dependent branches)."""
    def is_source(e):
        if isinstance(e, ast.Call) and prog.is_call_to(fi, e, GETATTR):
            return True
        if isinstance(e, ast.Attribute) and isinstance(e.value, ast.Attribute) and e.value.attr == "info":
            return True
        return False

    tainted: Set[str] = set()
    changed = True

    def expr_tainted(e):
        for n in A.walk_local(e):
            if is_source(n):
                return True
            if isinstance(n, ast.Name) and n.id in tainted:
                return True
        return False

    def stmt_ctrl_tainted(st):
        return any(expr_tainted(c.test) for c in conds(prog, fi, st))

    stmts = list(A.stmts_of(fi.node))
    while changed:
        changed = False
        for st in stmts:
            targets, value = [], None
            if isinstance(st, ast.Assign):
                targets, value = st.targets, st.value
            elif isinstance(st, (ast.AugAssign, ast.AnnAssign)) and st.value is not None:
                targets, value = [st.target], st.value
            elif isinstance(st, ast.For):
                if expr_tainted(st.iter):
                    for nm in A.target_names(st.target):
                        if nm not in tainted:
                            tainted.add(nm)
                            changed = True
                continue
            if value is None:
                continue
            t_val = expr_tainted(value) or stmt_ctrl_tainted(st)
            if not t_val:
                continue
            for t in targets:
                for nm in A.target_names(t):
                    if nm not in tainted:
                        tainted.add(nm)
                        changed = True
                # attribute store on a helper object (panose.bWeight = data[2]) taints the object
                if isinstance(t, ast.Attribute) and isinstance(t.value, ast.Name):
                    pass
    return tainted, expr_tainted, stmt_ctrl_tainted


def _table_var(fi: FuncInfo, tag_values: Set[str]) -> Set[str]:
    """Local names bound to the new table: `self.otf[tag] = x = newTable(tag)`."""
    out = set()
    for st in A.stmts_of(fi.node):
        if isinstance(st, ast.Assign) and isinstance(st.value, ast.Call) and A.callee_name(st.value) == "newTable":
            for t in st.targets:
                if isinstance(t, ast.Name):
                    out.add(t.id)
    return out


def base_info_fields(prog, mname: str, env0: Optional[dict] = None) -> Tuple[FuncInfo, Set[str]]:
    fi = prog.ix.get_method(BASE_OUTLINE, mname, own=True)
    tvars = _table_var(fi, set())
    if mname == "setupTable_post":
        pass
    need(tvars, f"cannot interpret {fi.short}: table object not found")
    tainted, expr_tainted, ctrl = _info_tainted_fields(prog, fi)
    # helper objects whose attributes receive info (panose) become tainted values
    changed = True
    while changed:
        changed = False
        for st in A.stmts_of(fi.node):
            if isinstance(st, ast.Assign):
                for t in st.targets:
                    if isinstance(t, ast.Attribute) and isinstance(t.value, ast.Name) and t.value.id not in tvars \
                            and t.value.id not in tainted and expr_tainted(st.value):
                        tainted.add(t.value.id)
                        changed = True
    fields: Set[str] = set()
    for st in A.stmts_of(fi.node):
        if isinstance(st, ast.Assign):
            for t in st.targets:
                if isinstance(t, ast.Attribute) and isinstance(t.value, ast.Name) and t.value.id in tvars:
                    if expr_tainted(st.value) or ctrl(st):
                        fields.add(t.attr)
    # setattr(table, <name>, <info-derived>)
    for c in calls_named(fi, "setattr"):
        if len(c.args) == 3 and isinstance(c.args[0], ast.Name) and c.args[0].id in tvars and expr_tainted(c.args[2]):
            vals = possible_values(prog, fi, c.args[1])
            if vals is None:
                raise AnalysisError(f"cannot fold the field name in {T(c)} ({fi.short})")
            fields |= {v for v in vals}
    return fi, fields


def r164(prog, chk):
    ix = prog.ix
    IC = "ufo2ft.infoCompiler.InfoCompiler"
    ic = ix.get_class(IC)
    pairs = [("head", "setupTable_head", "setupTable_head"), ("hhea", "_setupTable_hhea_or_vhea", "setupTable_hhea"),
             ("vhea", "_setupTable_hhea_or_vhea", "setupTable_vhea"), ("OS/2", "setupTable_OS2", "setupTable_OS2"),
             ("post", "setupTable_post", "setupTable_post")]
    n = 0
    for tag, base_m, ic_m in pairs:
        bfi, derived = base_info_fields(prog, base_m)
        m = ic.methods.get(ic_m)
        need(m is not None, f"InfoCompiler.{ic_m} vanished")
        fw = None
        for c in calls_named(m, "_set_attrs"):
            if len(c.args) == 2 and A.is_const(c.args[0], tag):
                try:
                    fw = set(ix.const_eval(m.module, c.args[1], ic))
                except ValueError:
                    raise AnalysisError(f"cannot fold the forward list of {m.short}")
                cfg = prog.cfg(m)
                sup = [x for x in calls_named(m, ic_m) if isinstance(x.func.value, ast.Call) and A.callee_name(x.func.value) == "super"]
                ok = bool(sup) and cfg.dominates(cfg.node_of(sup[0]), cfg.node_of(c))
                chk.ob("R16.4", f"{m.short}|builds the table before copying", ok, where(m, c),
                       detail="super().setupTable_*() dominates _set_attrs", message=f"{m.short} copies fields before (or without) building the temporary table")
        need(fw is not None, f"cannot interpret {m.short}: _set_attrs('{tag}', {{...}}) not found")
        for f in sorted(derived):
            n += 1
            chk.ob("R16.4", f"{tag}.{f} forwarded", f in fw, where(m),
                   detail=f"base builder {bfi.short} derives {tag}.{f} from font info",
                   message=f"{tag}.{f} is derived from font info by {bfi.short} but InfoCompiler does not forward it: "
                           f"a designspace public.fontInfo override of it is silently ignored")
        chk.extra.setdefault("info_derived_fields", {})[tag] = sorted(derived)
    # info_tables covers every table that has a forwarder
    it = ix.const_eval(ic.module, ic.attrs["info_tables"], ic)
    for tag, _b, _m in pairs + [("name", "", ""), ("gasp", "", "")]:
        chk.ob("R16.4", f"info_tables has {tag}", tag in it, ic.module.relpath, detail="table participates in the override",
               message=f"InfoCompiler.info_tables lacks '{tag}': its override is never applied")
    # the copy itself: a field of the temporary table is written whenever it exists (`is not None`), whatever its value -
    # an override that compiles to 0 / an empty flag set is an explicit value like any other
    sa = ix.get_method(IC, "_set_attrs", own=True)
    sets = [c for c in A.body_nodes(sa.node) if isinstance(c, ast.Call) and isinstance(c.func, ast.Name) and c.func.id == "setattr" and len(c.args) == 3]
    need(len(sets) == 1, f"cannot interpret {sa.short}: setattr")
    val = sets[0].args[2]
    gets = [c for c in A.body_nodes(sa.node) if isinstance(c, ast.Call) and isinstance(c.func, ast.Name) and c.func.id == "getattr" and len(c.args) == 3 and A.is_const(c.args[2], None)]
    okv = False
    if isinstance(val, ast.Name):
        ds = prog.reaching(sa, val.id, val)
        okv = bool(ds) and all(d.value is not None and d.value in gets for d in ds)
    elif val in gets:
        okv = True
    gs_ = [g for g in may_conds(prog, sa, sets[0]) if g.kind in ("if", "boolop")]
    okg = len(gs_) == 1 and [a_[0] for a_ in atoms_of(gs_[0].test, gs_[0].polarity) if a_[0] != "truthy" or a_[1] != (val.id if isinstance(val, ast.Name) else "")] == ["isnot"]
    chk.ob("R16.4", f"{sa.short}|a compiled override is copied whenever the temporary table has the field (compared with None only)", okv and okg, where(sa, sets[0]),
           detail=f"value: {T(val)}; guard: {[T(g.test, 60) for g in gs_]}",
           message=f"{sa.short}: the value copied into the variable font is not plainly the temporary table's field under an `is not None` test (value `{T(val, 50)}`, guards "
                   f"{[T(g.test, 50) for g in gs_]}): an override that compiles to 0 / no flags is dropped and the default source's value stays")
    chk.minimum("R16.4", 51)


# ----------------------------------------------------------------------------- R16.5
def ufo3_attributes() -> Set[str]:
    tree = external_module("fontTools.ufoLib")
    out: Set[str] = set()
    for n in tree.body:
        if isinstance(n, ast.Assign) and isinstance(n.targets[0], ast.Name) and n.targets[0].id == "fontInfoAttributesVersion2ValueData" \
                and isinstance(n.value, ast.Dict):
            out |= {k.value for k in n.value.keys if isinstance(k, ast.Constant)}
        if isinstance(n, ast.Expr) and isinstance(n.value, ast.Call) and T(n.value.func) == "fontInfoAttributesVersion3ValueData.update" \
                and n.value.args and isinstance(n.value.args[0], ast.Dict):
            out |= {k.value for k in n.value.args[0].keys if isinstance(k, ast.Constant)}
    if len(out) < 100:
        raise AnalysisError(f"cannot extract the UFO3 fontinfo attribute list from fontTools.ufoLib ({len(out)} found)")
    return out


def r165(prog, chk, consumed: Set[str]):
    attrs = ufo3_attributes()
    consumed = set(consumed)
    # raw reads: <x>.info.<attr>, info.<attr>, getattr(info, <attr>)
    for fi in prog.ix.functions.values():
        if fi.module.name in ("ufo2ft.instantiator",):
            continue  # the instantiator copies info between UFOs, it builds no table
        for n in A.body_nodes(fi.node):
            if isinstance(n, ast.Attribute) and n.attr in attrs:
                base = n.value
                if (isinstance(base, ast.Attribute) and base.attr == "info") or (isinstance(base, ast.Name) and base.id == "info"):
                    consumed.add(n.attr)
            if isinstance(n, ast.Call) and A.callee_name(n) in ("getattr", "hasattr") and len(n.args) >= 2 \
                    and "info" in T(n.args[0]) and fi.module.name != FID:
                vals = possible_values(prog, fi, n.args[1])
                if vals:
                    consumed |= {v for v in vals if isinstance(v, str)}
    for a in sorted(attrs):
        if a in consumed:
            chk.ob("R16.5", f"fontinfo {a}", True, "", detail="consumed by a table builder", nontrivial=False)
        elif a in REVIEWED_UNUSED:
            chk.ob("R16.5", f"fontinfo {a}", True, "", detail=f"reviewed not-in-OpenType: {REVIEWED_UNUSED[a]}", nontrivial=False)
            chk.exempt("R16.5", a, REVIEWED_UNUSED[a])
        else:
            chk.ob("R16.5", f"fontinfo {a}", False, "",
                   message=f"UFO3 fontinfo attribute '{a}' is never read by any table builder: an explicit value cannot appear in the font")
    chk.extra["ufo3_attributes"] = len(attrs)
    chk.minimum("R16.5", 100)


# ----------------------------------------------------------------------------- R16.7
_MUT = {"append", "extend", "insert", "remove", "pop", "clear", "sort", "reverse", "update", "add", "discard", "setdefault", "popitem"}


def r167(prog, chk, rule="R16.7"):
    """What getAttrWithFallback returns is the info object's own value (or the shared
    module-level default): it is never modified in place.  Otherwise an explicit
    value stops winning - the font's own list is altered (and the next compile reads
    the altered value), or the default of every later font is."""
    ix = prog.ix
    n = 0
    for fi in ix.functions.values():
        calls = [c for c in A.body_nodes(fi.node) if isinstance(c, ast.Call) and prog.is_call_to(fi, c, "ufo2ft.fontInfoData.getAttrWithFallback")]
        if not calls:
            continue
        direct: Dict[str, List[ast.AST]] = {}
        for st in A.stmts_of(fi.node):
            if isinstance(st, ast.Assign) and st.value in calls:
                for t in st.targets:
                    if isinstance(t, ast.Name):
                        direct.setdefault(t.id, []).append(st)
        # mutation of the call result itself:  getAttrWithFallback(...).append(x)
        for c in calls:
            par = ix.parent(c)
            bad = isinstance(par, ast.Attribute) and par.attr in _MUT and isinstance(ix.parent(par), ast.Call)
            n += 1
            chk.ob(rule, f"{fi.short}|{A.keytext(fi.node, c)}|result not mutated", not bad, where(fi, c), detail="value used read-only or copied", nontrivial=False,
                   message=f"{fi.short} mutates the object returned by getAttrWithFallback in place (`{T(ix.parent(par), 60) if bad else ''}`)")
        for name, sts in direct.items():
            for node in A.body_nodes(fi.node):
                use = None
                what = ""
                if isinstance(node, ast.Call) and isinstance(node.func, ast.Attribute) and node.func.attr in _MUT and isinstance(node.func.value, ast.Name) and node.func.value.id == name:
                    use, what = node.func.value, f".{node.func.attr}()"
                elif isinstance(node, ast.AugAssign) and isinstance(node.target, ast.Name) and node.target.id == name and isinstance(node.op, (ast.Add, ast.BitOr, ast.BitAnd, ast.Sub, ast.BitXor)):
                    use, what = node.target, "augmented assignment"
                elif isinstance(node, (ast.Assign, ast.Delete)):
                    for t in node.targets:
                        if isinstance(t, ast.Subscript) and isinstance(t.value, ast.Name) and t.value.id == name:
                            use, what = t.value, "item store"
                if use is None:
                    continue
                if isinstance(node, ast.AugAssign):
                    # numbers / strings are rebound by += ; only lists / sets are changed in place
                    scalar = isinstance(node.value, ast.Constant) or (isinstance(node.value, (ast.BinOp, ast.UnaryOp)) and not any(isinstance(x, (ast.List, ast.Set)) for x in ast.walk(node.value)))
                    if scalar:
                        continue
                    defs = prog.cfg(fi).reaching_defs(name, node)
                else:
                    defs = prog.reaching(fi, name, use)
                hit = [d for d in defs if d.binder in sts]
                if hit:
                    n += 1
                    chk.ob(rule, f"{fi.short}|{A.keytext(fi.node, node)}", False, where(fi, node),
                           message=f"{fi.short}: `{T(node, 60)}` modifies in place ({what}) the value getAttrWithFallback returned, i.e. the font info's own "
                                   f"attribute or the shared default: explicit values are altered for this and every later compile")
    # ... nor by a package function it is handed to (one level of helpers, two at most)
    def param_mutation(callee: FuncInfo, pname: str, depth=0):
        """a statement of `callee` that changes its parameter `pname` in place, or None"""
        if isinstance(callee.node, ast.Lambda):
            return None
        for node in A.body_nodes(callee.node):
            use = None
            if isinstance(node, ast.Call) and isinstance(node.func, ast.Attribute) and node.func.attr in _MUT and isinstance(node.func.value, ast.Name) and node.func.value.id == pname:
                use = node.func.value
            elif isinstance(node, (ast.Assign, ast.Delete)):
                for t in node.targets:
                    if isinstance(t, ast.Subscript) and isinstance(t.value, ast.Name) and t.value.id == pname:
                        use = t.value
            elif isinstance(node, ast.AugAssign) and isinstance(node.target, ast.Name) and node.target.id == pname and isinstance(node.value, (ast.List, ast.ListComp, ast.Set, ast.Name, ast.Call)) \
                    and isinstance(node.op, (ast.Add, ast.BitOr)):
                ds = prog.cfg(callee).reaching_defs(pname, node)
                if ds and all(d.kind == "param" for d in ds):
                    return node
            if use is not None:
                ds = prog.reaching(callee, pname, use)
                if ds and all(d.kind == "param" for d in ds):
                    return node
            if depth < 1 and isinstance(node, ast.Call):
                hit = handed_on(callee, node, lambda a: isinstance(a, ast.Name) and a.id == pname and all(d.kind == "param" for d in prog.reaching(callee, pname, a)), depth + 1)
                if hit is not None:
                    return hit[1]
        return None

    def handed_on(fi, call, is_value, depth=0):
        """(callee, mutating statement) when `call` passes a tracked value to a package function that changes it in place"""
        try:
            ts, how = prog.resolve_callee(fi, call.func)
        except Exception:
            return None
        if how != "exact" or len(ts) != 1 or not isinstance(ts[0], FuncInfo) or isinstance(ts[0].node, ast.Lambda):
            return None
        t = ts[0]
        ps = t.params()
        if t.cls is not None and not t.is_static and isinstance(call.func, ast.Attribute):
            ps = ps[1:]
        for i, a in enumerate(call.args):
            if i < len(ps) and is_value(a):
                m = param_mutation(t, ps[i], depth)
                if m is not None:
                    return t, m
        for k in call.keywords:
            if k.arg in ps and is_value(k.value):
                m = param_mutation(t, k.arg, depth)
                if m is not None:
                    return t, m
        return None

    for fi in ix.functions.values():
        if isinstance(fi.node, ast.Lambda):
            continue
        calls = [c for c in A.body_nodes(fi.node) if isinstance(c, ast.Call) and prog.is_call_to(fi, c, "ufo2ft.fontInfoData.getAttrWithFallback")]
        if not calls:
            continue
        direct_defs = [st for st in A.stmts_of(fi.node) if isinstance(st, ast.Assign) and st.value in calls]

        def is_value(a):
            if a in calls:
                return True
            if isinstance(a, ast.Name):
                ds = prog.reaching(fi, a.id, a)
                return bool(ds) and any(d.binder in direct_defs for d in ds)
            return False
        for c in A.body_nodes(fi.node):
            if isinstance(c, ast.Call) and c not in calls and (c.args or c.keywords):
                hit = handed_on(fi, c, is_value)
                if hit is not None:
                    n += 1
                    chk.ob(rule, f"{fi.short}|{A.keytext(fi.node, c)}|handed to a helper that changes it in place", False, where(fi, c),
                           message=f"{fi.short} hands the value getAttrWithFallback returned to {hit[0].short}, which modifies it in place (`{T(hit[1], 50)}`): that value is the "
                                   f"font info's own attribute (or the shared default), so the caller's source is altered for this and every later compile")
    chk.minimum(rule, 100)


# ----------------------------------------------------------------------------- R16.8
# attributes whose value may be tested by truthiness: strings / lists (empty == absent), or reviewed numbers
TRUTHINESS_OK = {
    "openTypeNamePreferredSubfamilyName": "string: empty means absent",
    "trademark": "string", "copyright": "string",
    "postscriptBlueValues": "list: empty means none", "postscriptOtherBlues": "list", "postscriptFamilyBlues": "list", "postscriptFamilyOtherBlues": "list",
    "postscriptStemSnapH": "list", "postscriptStemSnapV": "list",
    "xHeight": "only used to derive the *fallback* of another attribute (superscript offset); an x-height of 0 cannot be scaled and means unknown",
}


def r168(prog, chk):
    """Explicit values win, also when they are 0: the result of getAttrWithFallback is
    compared with None, never tested by truthiness (`v or default`, `if v`, `not v`),
    except for reviewed string / list attributes."""
    ix = prog.ix
    n = 0
    for fi in ix.functions.values():
        calls = [c for c in A.body_nodes(fi.node) if isinstance(c, ast.Call) and prog.is_call_to(fi, c, "ufo2ft.fontInfoData.getAttrWithFallback")]
        if not calls:
            continue
        names: Dict[str, ast.AST] = {}
        for st in A.stmts_of(fi.node):
            if isinstance(st, ast.Assign) and st.value in calls and isinstance(st.targets[0], ast.Name):
                names[st.targets[0].id] = st.value
        for node in A.body_nodes(fi.node):
            tested = []
            if isinstance(node, (ast.If, ast.IfExp, ast.While)):
                tested.append(node.test)
            elif isinstance(node, ast.Call) and isinstance(node.func, ast.Name) and node.func.id in ("all", "any") and len(node.args) == 1:
                # all(f(x) for x in ...) / any([a, b]) test every element by truthiness
                a0 = node.args[0]
                if isinstance(a0, (ast.GeneratorExp, ast.ListComp, ast.SetComp)):
                    tested.append(a0.elt)
                elif isinstance(a0, (ast.List, ast.Tuple, ast.Set)):
                    tested += list(a0.elts)
            elif isinstance(node, ast.BoolOp):
                tested += node.values[:-1] if isinstance(node.op, ast.Or) else node.values
            elif isinstance(node, ast.UnaryOp) and isinstance(node.op, ast.Not):
                tested.append(node.operand)
            for t in tested:
                call = None
                if t in calls:
                    call = t
                elif isinstance(t, ast.Name) and t.id in names:
                    ds = prog.reaching(fi, t.id, t)
                    if any(d.value is names[t.id] for d in ds):
                        call = names[t.id]
                if call is None:
                    continue
                n += 1
                a = A.arg_at(call, 1, "attr")
                try:
                    attr = ix.const_eval(fi.module, a, prog._class_ctx(fi)) if a is not None else None
                except Exception:
                    attr = None
                if attr is None and a is not None:
                    # a computed name ('postscript' + key in a loop over literal keys): every name it can be
                    pv = possible_values(prog, fi, a)
                    if pv and all(isinstance(x, str) for x in pv):
                        attr = sorted(pv)[0] if len(pv) == 1 else None
                        if len(pv) > 1:
                            allok = all(x in TRUTHINESS_OK for x in pv)
                            chk.ob("R16.8", f"{fi.short}|{'/'.join(sorted(pv))[:60]}|{A.keytext(fi.node, node)[:50]}", allok, where(fi, node), detail="every attribute the computed name can denote is a reviewed string / list attribute",
                                   message=f"{fi.short}: the value of font info attributes {sorted(x for x in pv if x not in TRUTHINESS_OK)} is tested by truthiness (`{T(node, 60)}`): an explicit 0 / 0.0 is treated "
                                           f"as absent and replaced, although explicit values must win")
                            continue
                ok = isinstance(attr, str) and attr in TRUTHINESS_OK
                if ok:
                    chk.exempt("R16.8", f"{fi.short}|{attr}|{A.keytext(fi.node, node)[:50]}", TRUTHINESS_OK[attr])
                chk.ob("R16.8", f"{fi.short}|{attr}|{A.keytext(fi.node, node)[:50]}", ok, where(fi, node), detail=TRUTHINESS_OK.get(attr, "") if isinstance(attr, str) else "",
                       message=f"{fi.short}: the value of font info attribute {attr if attr else T(a, 30)!r} is tested by truthiness (`{T(node, 60)}`): an explicit 0 / 0.0 is treated "
                               f"as absent and replaced, although explicit values must win")
    chk.minimum("R16.8", 5)


# ----------------------------------------------------------------------------- R16.9
STYLE_BITS = {  # OpenType spec: OS/2.fsSelection bits 0 ITALIC, 5 BOLD, 6 REGULAR; head.macStyle bits 0 Bold, 1 Italic
    "setupTable_OS2": {"regular": {6}, "bold": {5}, "italic": {0}, "bold italic": {0, 5}},
    "setupTable_head": {"regular": set(), "bold": {0}, "italic": {1}, "bold italic": {0, 1}},
}


def r169(prog, chk):
    """styleMapStyleName, explicit or fallback, appears in OS/2.fsSelection and head.macStyle as the bits the
    OpenType spec assigns to that style; the two sibling tables agree on bold / italic."""
    ix = prog.ix
    got = {}
    for mname, spec in STYLE_BITS.items():
        fi = ix.get_method(BASE_OUTLINE, mname, own=True)
        var = None
        for st in A.stmts_of(fi.node):
            if isinstance(st, ast.Assign) and isinstance(st.targets[0], ast.Name) and isinstance(st.value, ast.Call) and A.callee_name(st.value) == "getAttrWithFallback" \
                    and len(st.value.args) == 2 and A.is_const(st.value.args[1], "styleMapStyleName"):
                var = st.targets[0].id
        need(var is not None, f"cannot interpret {fi.short}: styleMapStyleName is not read")
        tests = [n for n in A.body_nodes(fi.node) if isinstance(n, ast.If) and any(isinstance(x, ast.Name) and x.id == var for x in ast.walk(n.test))]
        need(tests, f"cannot interpret {fi.short}: no dispatch on {var}")
        nested = {id(n.orelse[0]) for n in tests if len(n.orelse) == 1}
        heads = [n for n in tests if id(n) not in nested]
        need(len(heads) == 1, f"cannot interpret {fi.short}: expected one if-chain on {var}")
        table, bad = {}, []
        node = heads[0]
        while node is not None:
            t = node.test
            if not (isinstance(t, ast.Compare) and len(t.ops) == 1 and isinstance(t.ops[0], ast.Eq) and T(t.left) == var and isinstance(t.comparators[0], ast.Constant) and isinstance(t.comparators[0].value, str)):
                bad.append(T(t))
                break
            bits = set()
            for st in node.body:
                if isinstance(st, ast.Expr) and isinstance(st.value, ast.Call) and A.callee_name(st.value) == "append" and len(st.value.args) == 1 and isinstance(st.value.args[0], ast.Constant):
                    bits.add(st.value.args[0].value)
                elif isinstance(st, (ast.AugAssign, ast.Assign)) and isinstance(st.value, ast.List) and all(isinstance(e, ast.Constant) for e in st.value.elts):
                    bits |= {e.value for e in st.value.elts}
                elif not isinstance(st, ast.Pass):
                    raise AnalysisError(f"cannot interpret {fi.short}: `{T(st, 50)}` in the style chain")
            table.setdefault(t.comparators[0].value, bits)
            if len(node.orelse) == 1 and isinstance(node.orelse[0], ast.If):
                node = node.orelse[0]
            else:
                need(not node.orelse, f"cannot interpret {fi.short}: else branch of the style chain")
                node = None
        full = {k: table.get(k, set()) for k in spec}
        got[mname] = full
        ok = not bad and full == spec and set(table) <= set(spec)
        chk.ob("R16.9", f"{fi.short}|style-map bits follow the OpenType assignment", ok, where(fi, heads[0]), detail=str({k: sorted(v) for k, v in full.items()}),
               message=f"{fi.short}: styleMapStyleName is not translated to the bits the OpenType spec assigns ({'test ' + bad[0] if bad else {k: sorted(v) for k, v in full.items()}}; expected {({k: sorted(v) for k, v in spec.items()})})")
    o, h = got["setupTable_OS2"], got["setupTable_head"]
    ok = all((5 in o[k]) == (0 in h[k]) and (0 in o[k]) == (1 in h[k]) for k in o)
    chk.ob("R16.9", "OS/2.fsSelection and head.macStyle agree on bold and italic for every style name", ok, "Lib/ufo2ft/outlineCompiler.py", detail="bit 5 <-> bit 0, bit 0 <-> bit 1",
           message="OS/2.fsSelection and head.macStyle disagree on bold / italic for some styleMapStyleName")
    chk.minimum("R16.9", 3)




# ----------------------------------------------------------------------------- R16.10
def r1610(prog, chk):
    """A name record built from the info attributes is only left out when a record with the SAME key (name ID, platform,
    encoding, language) already exists, and the explicit openTypeNameRecords are written with their own four keys:
    localized records never displace the built English ones and explicit records always appear."""
    ix = prog.ix
    fi = ix.get_method(BASE_OUTLINE, "setupTable_name", own=True)
    sets = [c for c in calls_named(fi, "setName")]
    need(len(sets) >= 2, f"cannot interpret {fi.short}: setName calls")

    def val(e):
        """canonical text of a key argument: single-definition locals are expanded"""
        if isinstance(e, ast.Name):
            ds = prog.reaching(fi, e.id, e)
            if len(ds) == 1 and ds[0].kind == "assign" and ds[0].element()[1] is None and ds[0].element()[0] is not None:
                return val(ds[0].element()[0])
        if isinstance(e, ast.Constant):
            return repr(e.value)
        return T(e)
    n_guarded = n_records = 0
    for c in sets:
        need(len(c.args) == 5, f"cannot interpret {fi.short}: `{T(c, 60)}`")
        keys = [val(a) for a in c.args[1:5]]
        gets = [g for g in may_conds(prog, fi, c) if isinstance(g.test, ast.Call) and A.callee_name(g.test) == "getName"]
        if gets:
            n_guarded += 1
            for g in gets:
                gk = [val(a) for a in g.test.args]
                ok = gk == keys and g.polarity is False
                chk.ob("R16.10", f"{fi.short}|{A.keytext(fi.node, c)}|a built record is only skipped when a record with the same four keys exists", ok, where(fi, c), detail=f"getName{tuple(gk)} vs setName keys {tuple(keys)}",
                       message=f"{fi.short}: the built name record is skipped under `{T(g.test, 60)}`, which does not name the same (nameID, platformID, encodingID, languageID) as the record "
                               f"it would write: a record in another language / encoding suppresses the built one")
        rec_loop = [a_ for a_ in ix.ancestors(c) if isinstance(a_, ast.For) and "openTypeNameRecords" in T(a_.iter)]
        if rec_loop:
            n_records += 1
            want = ["nameID", "platformID", "encodingID", "languageID"]
            got = []
            for a in c.args[1:5]:
                ds = prog.reaching(fi, a.id, a) if isinstance(a, ast.Name) else []
                got.append(ds[0].value.slice.value if len(ds) == 1 and isinstance(ds[0].value, ast.Subscript) and isinstance(ds[0].value.slice, ast.Constant) else T(a))
            okr = got == want and not [g for g in may_conds(prog, fi, c) if g.kind in ("if", "boolop") and not is_early_exit_guard(prog, fi, g)]
            chk.ob("R16.10", f"{fi.short}|{A.keytext(fi.node, c)}|explicit name records are written unconditionally under their own four keys", okr, where(fi, c), detail=str(got),
                   message=f"{fi.short}: an explicit openTypeNameRecords entry is not written under its own (nameID, platformID, encodingID, languageID), or only conditionally")
    need(n_guarded >= 1 and n_records >= 1, f"cannot interpret {fi.short}: built / explicit record writers")
    chk.minimum("R16.10", 2)



# ----------------------------------------------------------------------------- R16.11
BIT_LIST_ATTRS = {  # UFO3 bit-list attributes -> number of bits the UFO specification allows (fontTools.ufoLib validators)
    "openTypeOS2UnicodeRanges": 128, "openTypeOS2CodePageRanges": 64, "openTypeOS2Selection": 16, "openTypeOS2Type": 16, "openTypeHeadFlags": 16,
}


def r1611(prog, chk):
    """Every bit a UFO may set in a bit-list attribute has a place in the compiled field: the list is converted with the
    package's own total conversion intListToNum, in windows that together cover the whole range the UFO specification
    allows (no helper that rejects valid bits, no window left out)."""
    ix = prog.ix
    n = 0
    for fi in ix.functions.values():
        if fi.module.name != "ufo2ft.outlineCompiler":
            continue
        for st in A.stmts_of(fi.node):
            if not (isinstance(st, ast.Assign) and isinstance(st.targets[0], ast.Name)):
                continue
            gets = [c for c in ast.walk(st.value) if isinstance(c, ast.Call) and A.callee_name(c) == "getAttrWithFallback" and len(c.args) == 2
                    and isinstance(c.args[1], ast.Constant) and c.args[1].value in BIT_LIST_ATTRS]
            if not gets:
                continue
            attr = gets[0].args[1].value
            var = st.targets[0].id
            n += 1
            # every use of the list: membership in an intListToNum window, a None / emptiness test, a copy, or an append of a constant bit
            windows, other = [], []
            for u in A.body_nodes(fi.node):
                if isinstance(u, ast.Name) and u.id == var and isinstance(u.ctx, ast.Load) and any(d.binder is st for d in prog.reaching(fi, u.id, u)):
                    par = ix.parent(u)
                    if isinstance(par, ast.Call) and A.callee_name(par) == "intListToNum" and par.args and par.args[0] is u and len(par.args) == 3 \
                            and all(isinstance(a_, ast.Constant) and isinstance(a_.value, int) for a_ in par.args[1:]):
                        windows.append((par.args[1].value, par.args[2].value))
                    elif isinstance(par, ast.Compare) or isinstance(par, (ast.If, ast.BoolOp, ast.UnaryOp)) or (isinstance(par, ast.Call) and A.callee_name(par) in ("list", "set", "sorted")) \
                            or (isinstance(par, ast.Attribute) and par.attr in ("append", "extend")) or isinstance(par, ast.AugAssign):
                        continue
                    else:
                        other.append(T(ix.enclosing_stmt(u), 60))
            covered = set()
            for a_, l_ in windows:
                covered |= set(range(a_, a_ + l_))
            ok = not other and covered >= set(range(BIT_LIST_ATTRS[attr])) and sum(l_ for _a, l_ in windows) == len(covered)
            chk.ob("R16.11", f"{fi.short}|{attr}|every valid bit has its place (intListToNum windows cover 0..{BIT_LIST_ATTRS[attr] - 1})", ok, where(fi, st), detail=f"windows {sorted(windows)}; other uses {other}",
                   message=f"{fi.short}: the bits of {attr} do not all reach the table through intListToNum windows covering 0..{BIT_LIST_ATTRS[attr] - 1} (windows {sorted(windows)}, other uses "
                           f"{other}): a bit the UFO specification allows is dropped, misplaced or makes the compile fail")
        # a list converted where it is read: intListToNum(getAttrWithFallback(info, <attr>), start, length)
        for c in A.body_nodes(fi.node):
            if isinstance(c, ast.Call) and A.callee_name(c) == "intListToNum" and len(c.args) == 3 and isinstance(c.args[0], ast.Call) and A.callee_name(c.args[0]) == "getAttrWithFallback" \
                    and len(c.args[0].args) == 2 and isinstance(c.args[0].args[1], ast.Constant) and c.args[0].args[1].value in BIT_LIST_ATTRS:
                attr = c.args[0].args[1].value
                n += 1
                ok = all(isinstance(a_, ast.Constant) and isinstance(a_.value, int) for a_ in c.args[1:]) and c.args[1].value == 0 and c.args[2].value >= BIT_LIST_ATTRS[attr]
                chk.ob("R16.11", f"{fi.short}|{attr}|every valid bit has its place (intListToNum windows cover 0..{BIT_LIST_ATTRS[attr] - 1})", ok, where(fi, c), detail=T(c, 80),
                       message=f"{fi.short}: the bits of {attr} are not converted over the whole range 0..{BIT_LIST_ATTRS[attr] - 1} (`{T(c, 70)}`)")
    need(n >= 5, f"bit-list attributes read in the outline compiler: {n}")
    chk.minimum("R16.11", 5)


# ----------------------------------------------------------------------------- R16.12
STEM_KEYS = {"StemSnapH", "StemSnapV", "StdHW", "StdVW"}
STEM_ATTRS = {"postscriptStemSnapH", "postscriptStemSnapV"}
BLUES_KEYS = {"BlueValues", "OtherBlues", "FamilyBlues", "FamilyOtherBlues", "BlueFuzz", "BlueShift", "BlueScale", "ForceBold"}
BLUES_ATTRS = {"postscriptBlueValues", "postscriptOtherBlues", "postscriptFamilyBlues", "postscriptFamilyOtherBlues"}


def _info_deps(prog, fi, e, seen=None, depth=0) -> Set[str]:
    """font info attributes the value of `e` can depend on ('?' when a part cannot be followed)"""
    seen = set() if seen is None else seen
    deps: Set[str] = set()
    if depth > 8:
        return {"?"}
    for n in ast.walk(e):
        if isinstance(n, ast.Call) and prog.is_call_to(fi, n, GETATTR) and len(n.args) >= 2:
            pv = possible_values(prog, fi, n.args[1])
            deps |= set(pv) if pv else {"?"}
        elif isinstance(n, ast.Name) and isinstance(n.ctx, ast.Load) and n.id not in ("self", "any", "all", "isinstance", "list", "len", "bool"):
            for d in prog.reaching(fi, n.id, n):
                k = (n.id, id(d.binder))
                if k in seen or d.value is None:
                    continue
                seen.add(k)
                deps |= _info_deps(prog, fi, d.value, seen, depth + 1)
                if d.kind in ("for", "comp"):
                    continue
            # a local container filled element by element: what was put in
            for st in A.stmts_of(fi.node):
                if isinstance(st, ast.Assign) and any(isinstance(t, ast.Subscript) and isinstance(t.value, ast.Name) and t.value.id == n.id for t in st.targets):
                    k = (n.id, id(st))
                    if k not in seen:
                        seen.add(k)
                        deps |= _info_deps(prog, fi, st.value, seen, depth + 1)
    return deps


def r1612(prog, chk):
    ix = prog.ix
    f = ix.get_method(OTF_OUTLINE, "setupTable_CFF", own=True)
    writes = []  # (node, keys or None for a bulk update)
    priv = {st.targets[0].id for st in A.stmts_of(f.node) if isinstance(st, ast.Assign) and len(st.targets) == 1 and isinstance(st.targets[0], ast.Name)
            and isinstance(st.value, ast.Call) and A.callee_name(st.value) == "PrivateDict"}
    need(priv, f"cannot interpret {f.short}: the Private dict object")

    def is_raw(e):
        return isinstance(e, ast.Attribute) and e.attr == "rawDict" and isinstance(e.value, ast.Name) and e.value.id in priv
    for s_, t, v in subscript_stores(f):
        if is_raw(t.value) and isinstance(t.slice, ast.Constant):
            writes.append((s_, {t.slice.value}))
    for c in A.body_nodes(f.node):
        if isinstance(c, ast.Call) and isinstance(c.func, ast.Attribute) and c.func.attr in ("update", "setdefault") and is_raw(c.func.value):
            ks = {k.arg for k in c.keywords if k.arg} if (c.keywords and not c.args) else None
            writes.append((c, ks))
    need(len(writes) >= 6, f"cannot interpret {f.short}: Private dict writes ({len(writes)})")
    seen_keys = set()
    for node, keys in writes:
        for family, fkeys, own, other in (("stem", STEM_KEYS, STEM_ATTRS, BLUES_ATTRS), ("blues", BLUES_KEYS, BLUES_ATTRS, STEM_ATTRS)):
            if keys is not None and not (keys & fkeys):
                continue
            seen_keys |= (keys or set()) & fkeys
            tests = [g for g in may_conds(prog, f, node) if g.polarity in (True, False) and g.kind in ("if", "boolop", "ifexp", "while") and not is_early_exit_guard(prog, f, g)]
            deps = set()
            for g in tests:
                deps |= _info_deps(prog, f, g.test)
            foreign = sorted(d for d in deps if d in other or d == "?")
            lbl = "/".join(sorted(keys)) if keys else "bulk update"
            chk.ob("R16.12", f"{f.short}|{A.keytext(f.node, ix.enclosing_stmt(node))}|{family} entries only depend on the {family} attributes", not foreign, where(f, node),
                   detail=f"{lbl}: written under tests on {sorted(deps) or 'nothing'}",
                   message=f"{f.short}: the {family} entry `{lbl}` of the CFF Private dict is written under a test that depends on {foreign}: explicit "
                           f"{'stem widths are dropped when the font defines no alignment zones' if family == 'stem' else 'alignment zones are dropped when the font defines no stems'} "
                           f"(explicit values must reach the font)")
    missing = sorted((STEM_KEYS | {"BlueValues", "OtherBlues", "FamilyBlues", "FamilyOtherBlues"}) - seen_keys) if not any(k is None for _, k in writes) else []
    chk.ob("R16.12", f"{f.short}|every stem / blues entry has a write", not missing, where(f), detail=f"{len(writes)} Private dict writes", nontrivial=False,
           message=f"{f.short}: no write for the Private dict entries {missing}")
    chk.minimum("R16.12", 12)


# ----------------------------------------------------------------------------- R16.13
# field -> the already resolved field of the same table its fallback is computed from (read off setupTable_OS2, confirmed
# against the AFDKO defaults it cites: superscript sizes repeat the subscript sizes, x offsets follow the slant of the y offset)
OS2_DERIVED = {"ySuperscriptXSize": "ySubscriptXSize", "ySuperscriptYSize": "ySubscriptYSize",
               "ySubscriptXOffset": "ySubscriptYOffset", "ySuperscriptXOffset": "ySuperscriptYOffset"}


def r1613(prog, chk):
    ix = prog.ix
    f = ix.get_method(BASE_OUTLINE, "setupTable_OS2", own=True)
    cfg = prog.cfg(f)
    for fld, dep in sorted(OS2_DERIVED.items()):
        sts = [(s_, t, v) for s_, t, v in attr_stores(f, fld)]
        dsts = [(s_, t, v) for s_, t, v in attr_stores(f, dep)]
        ok, detail = False, ""
        if len(sts) == 1 and len(dsts) == 1:
            s_, t, v = sts[0]
            table = T(t.value)
            core = v.args[0] if isinstance(v, ast.Call) and len(v.args) == 1 and A.callee_name(v) in ("otRound", "int", "round") else v
            bv = branch_values(prog, f, core)
            fall = [(x, fs) for x, fs in bv if not (isinstance(x, ast.Call) and prog.is_call_to(f, x, GETATTR))]
            expl = [(x, fs) for x, fs in bv if isinstance(x, ast.Call) and prog.is_call_to(f, x, GETATTR)]
            reads_dep = lambda x: any(isinstance(n, ast.Attribute) and n.attr == dep and T(n.value) == table and isinstance(n.ctx, ast.Load) for n in ast.walk(x))
            ok = bool(expl) and len(fall) >= 1 and all(reads_dep(x) for x, fs in fall) and T(dsts[0][1].value) == table \
                and cfg.dominates(cfg.node_of(dsts[0][0]), cfg.node_of(s_))
            if ok and fld.endswith("XOffset"):
                # the slant helper takes (y offset, italic angle) in that order
                for x, fs in fall:
                    okx = isinstance(x, ast.Call) and len(x.args) == 2 and reads_dep(x.args[0]) and not reads_dep(x.args[1])
                    if okx:
                        def is_angle(y, ff):
                            if isinstance(y, ast.Call) and isinstance(y.func, ast.Name) and y.func.id in ("float", "int") and len(y.args) == 1:
                                y = y.args[0]
                            return isinstance(y, ast.Call) and prog.is_call_to(ff, y, GETATTR) and len(y.args) == 2 and A.is_const(y.args[1], "italicAngle")
                        oka, _ = every_origin(prog, f, x.args[1], is_angle, allow_const=False)
                        okx = oka
                    ok = ok and okx
            detail = "; ".join(T(x, 50) for x, fs in fall)
        else:
            # not written field by field: at least the resolved sibling has to be read back somewhere
            ok = any(isinstance(n, ast.Attribute) and n.attr == dep and isinstance(n.ctx, ast.Load) for n in A.body_nodes(f.node)) or \
                any(isinstance(n, ast.Call) and isinstance(n.func, ast.Name) and n.func.id == "getattr" and len(n.args) >= 2 and isinstance(n.args[1], ast.Constant) and n.args[1].value == dep
                    for n in A.body_nodes(f.node))
            detail = f"{len(sts)} direct store(s)"
        chk.ob("R16.13", f"{f.short}|{fld} falls back to a value computed from the resolved {dep}", ok, where(f, sts[0][0]) if sts else where(f), detail=detail,
               message=f"{f.short}: the fallback of OS/2.{fld} is no longer computed from the resolved {dep} of the same table ({detail}): an explicit "
                       f"{dep[1:]} in the font info no longer carries over to the absent {fld[1:]}")
    chk.minimum("R16.13", 4)


# ----------------------------------------------------------------------------- R16.14
def r1614(prog, chk):
    ix = prog.ix
    f = ix.get_method(BASE_OUTLINE, "setupTable_head", own=True)
    sts = [(s_, t, v) for s_, t, v in attr_stores(f, "created")]
    need(len(sts) == 1, f"cannot interpret {f.short}: head.created")
    s_, t, v = sts[0]

    def is_conv(x, ff):
        return isinstance(x, ast.Call) and A.callee_name(x) == "dateStringToTimeValue" and len(x.args) == 1 and isinstance(x.args[0], ast.Call) \
            and prog.is_call_to(ff, x.args[0], GETATTR) and A.is_const(x.args[0].args[1], "openTypeHeadCreated")
    ok = isinstance(v, ast.BinOp) and isinstance(v.op, ast.Sub)
    if ok:
        okl, _ = every_origin(prog, f, v.left, is_conv, allow_const=False)
        ok = okl and ((prog.ix.resolve_expr(f.module, v.right, None) or "").endswith("mac_epoch_diff") or T(v.right).endswith("mac_epoch_diff")) and not [g for g in may_conds(prog, f, s_) if g.kind in ("if", "boolop", "ifexp") and not is_early_exit_guard(prog, f, g)]
    chk.ob("R16.14", f"{f.short}|head.created = dateStringToTimeValue(<openTypeHeadCreated>) - mac_epoch_diff, nothing else", ok, where(f, s_), detail=T(v, 90),
           message=f"{f.short}: head.created is not simply the (explicit or fallback) openTypeHeadCreated converted to a timestamp (`{T(v, 70)}`): an explicit creation date is altered "
                   f"(e.g. clamped against the build time) on its way into the font")
    chk.minimum("R16.14", 1)


MUTANTS = [
    M("explicit creation date clamped to the build time (seeded C16n)", "ufo2ft/outlineCompiler.py", "BaseOutlineCompiler.setupTable_head",
      "head.created = dateStringToTimeValue(getAttrWithFallback(font.info, 'openTypeHeadCreated')) - mac_epoch_diff",
      "head.created = min(dateStringToTimeValue(getAttrWithFallback(font.info, 'openTypeHeadCreated')), dateStringToTimeValue(dateStringForNow())) - mac_epoch_diff", rule="R16.14"),
    M("vertical tables only built when all three vhea metrics are non-zero (seeded C16m)", "ufo2ft/outlineCompiler.py", "BaseOutlineCompiler.compile",
      "getAttrWithFallback(self.ufo.info, metric) is not None", "getAttrWithFallback(self.ufo.info, metric)", rule="R16.8"),
    M("slant helper called with its arguments swapped (mutation scan 4, k=143)", "ufo2ft/outlineCompiler.py", "BaseOutlineCompiler.setupTable_OS2",
      "adjustOffset(os2.ySuperscriptYOffset, italicAngle)", "adjustOffset(italicAngle, os2.ySuperscriptYOffset)", rule="R16.13"),
    M("blue zones sorted in place inside a helper of the BlueScale fallback (seeded C07j)", "ufo2ft/fontInfoData.py", "postscriptBlueScaleFallback",
      "blues = getAttrWithFallback(info, 'postscriptBlueValues')", "blues = getAttrWithFallback(info, 'postscriptBlueValues')\n_orderZones(blues)", rule="R16.7",
      also=(("ufo2ft/fontInfoData.py", "", "<append-module>", "def _orderZones(zones):\n    if zones:\n        zones.sort()\n"),)),
    M("superscript size falls back to the constant default instead of the resolved subscript size (seeded C16k)", "ufo2ft/outlineCompiler.py", "BaseOutlineCompiler.setupTable_OS2",
      "v = os2.ySubscriptXSize", "v = unitsPerEm * 0.65", rule="R16.13"),
    M("subscript x offset derived from the default y offset", "ufo2ft/outlineCompiler.py", "BaseOutlineCompiler.setupTable_OS2",
      "v = adjustOffset(-os2.ySubscriptYOffset, italicAngle)", "v = adjustOffset(-otRound(unitsPerEm * 0.075), italicAngle)", rule="R16.13"),
    M("stems only written when the font has blues (seeded C16j)", "ufo2ft/outlineCompiler.py", "OutlineOTFCompiler.setupTable_CFF",
      "stemSnapH and stemSnapV", "blueValues and stemSnapH and stemSnapV", rule="R16.12"),
    M("unicode ranges set through the fontTools helper that rejects bits above 122 (seeded C16i)", "ufo2ft/outlineCompiler.py", "BaseOutlineCompiler.setupTable_OS2",
      "os2.ulUnicodeRange1 = intListToNum(uniRanges, 0, 32)\nos2.ulUnicodeRange2 = intListToNum(uniRanges, 32, 32)\nos2.ulUnicodeRange3 = intListToNum(uniRanges, 64, 32)\nos2.ulUnicodeRange4 = intListToNum(uniRanges, 96, 32)",
      "os2.setUnicodeRanges(uniRanges)", rule="R16.11"),
    M("fourth unicode range window starts at the wrong bit", "ufo2ft/outlineCompiler.py", "BaseOutlineCompiler.setupTable_OS2",
      "intListToNum(uniRanges, 96, 32)", "intListToNum(uniRanges, 64, 32)", rule="R16.11"),
    M("zero-valued overrides of a variable font are dropped (seeded C16g)", "ufo2ft/infoCompiler.py", "InfoCompiler._set_attrs",
      "if (value := getattr(temp, attr, None)) is not None:\n    setattr(orig, attr, value)", "value = getattr(temp, attr, None) or getattr(orig, attr, None)\nif value is not None:\n    setattr(orig, attr, value)", rule="R16.4"),
    M("overrides only copied when truthy", "ufo2ft/infoCompiler.py", "InfoCompiler._set_attrs",
      "(value := getattr(temp, attr, None)) is not None", "(value := getattr(temp, attr, None))", rule="R16.4"),
    M("built name record skipped when any language has that name ID (seeded C16f)", "ufo2ft/outlineCompiler.py", "BaseOutlineCompiler.setupTable_name",
      "name.getName(nameId, platformId, platEncId, langId)", "name.getName(nameId, platformId, platEncId)", rule="R16.10"),
    M("explicit name records written as English", "ufo2ft/outlineCompiler.py", "BaseOutlineCompiler.setupTable_name",
      "langId = nameRecord['languageID']", "langId = 1033", rule="R16.10"),
    M("bold style sets the bold bit for everything else instead (mutation scan k=149)", "ufo2ft/outlineCompiler.py", "BaseOutlineCompiler.setupTable_OS2",
      "styleMapStyleName == 'bold'", "styleMapStyleName != 'bold'", rule="R16.9"),
    M("macStyle italic bit on bold", "ufo2ft/outlineCompiler.py", "BaseOutlineCompiler.setupTable_head", "macStyle = [0]", "macStyle = [1]", rule="R16.9"),
    M("subscript size: explicit 0 replaced by the UPM default (seeded C16c)", "ufo2ft/outlineCompiler.py", "BaseOutlineCompiler.setupTable_OS2",
      "v = getAttrWithFallback(font.info, 'openTypeOS2SubscriptXSize')", "v = getAttrWithFallback(font.info, 'openTypeOS2SubscriptXSize') or None", rule="R16.8"),
    M("italic angle 0 treated as absent", "ufo2ft/outlineCompiler.py", "BaseOutlineCompiler.setupTable_post",
      "italicAngle = float(getAttrWithFallback(font.info, 'italicAngle'))", "italicAngle = float(getAttrWithFallback(font.info, 'italicAngle') or -12)", rule="R16.8"),
    M("fsSelection bits appended to the info's own list (seeded C16b)", "ufo2ft/outlineCompiler.py", "BaseOutlineCompiler.setupTable_OS2",
      "selection = list(getAttrWithFallback(font.info, 'openTypeOS2Selection'))", "selection = getAttrWithFallback(font.info, 'openTypeOS2Selection')", rule="R16.7"),
    M("head flags default mutated", "ufo2ft/outlineCompiler.py", "BaseOutlineCompiler.setupTable_head",
      "head.flags = intListToNum(getAttrWithFallback(font.info, 'openTypeHeadFlags'), 0, 16)",
      "flags = getAttrWithFallback(font.info, 'openTypeHeadFlags')\nflags += [3]\nhead.flags = intListToNum(flags, 0, 16)", rule="R16.7"),
    M("copy taken with slice", "ufo2ft/outlineCompiler.py", "BaseOutlineCompiler.setupTable_OS2",
      "selection = list(getAttrWithFallback(font.info, 'openTypeOS2Selection'))", "selection = getAttrWithFallback(font.info, 'openTypeOS2Selection')[:]", kind="equiv"),
    M("a table builder asks for an attribute that has no fallback", "ufo2ft/outlineCompiler.py", "BaseOutlineCompiler.setupTable_OS2",
      "os2.usBreakChar = 32", "os2.usBreakChar = getAttrWithFallback(font.info, 'openTypeOS2BreakChar')", rule="R16.1"),
    M("vhea metric prefix typo only reachable through the computed name", "ufo2ft/outlineCompiler.py", "BaseOutlineCompiler._setupTable_hhea_or_vhea",
      "'openType%sVertTypo' % tag.title()", "'openType%sVertTypo' % tag.upper()", rule="R16.1"),
    M("static fallback entry removed", "ufo2ft/fontInfoData.py", None,
      "<remove-keyword>", "staticFallbackData:openTypeOS2VendorID", rule="R16.1"),
    M("caret-slope fallback asks getAttrWithFallback for its partner (cycle)", "ufo2ft/fontInfoData.py", "openTypeHheaCaretSlopeRiseFallback",
      "if hasattr(info, 'openTypeHheaCaretSlopeRun') and info.openTypeHheaCaretSlopeRun is not None:\n    slopeRun = info.openTypeHheaCaretSlopeRun\n    return otRound(slopeRun / math.tan(math.radians(-italicAngle)))",
      "slopeRun = getAttrWithFallback(info, 'openTypeHheaCaretSlopeRun')\nreturn otRound(slopeRun / math.tan(math.radians(-italicAngle)))",
      rule="R16.2"),
    M("style-map family fallback consults the unique ID", "ufo2ft/fontInfoData.py", "postscriptFontNameFallback",
      "getAttrWithFallback(info, 'openTypeNamePreferredSubfamilyName')", "getAttrWithFallback(info, 'openTypeNameUniqueID')", rule="R16.2"),
    M("sanitiser: tests moved back in front of the normalisation", "ufo2ft/fontInfoData.py", "normalizeStringForPostscript",
      "for ch in c:\n    if ch == ' ':\n        if allowSpaces:\n            normalized.append(ch)\n    elif ch in _postscriptFontNameAllowed and ch not in _postscriptFontNameExceptions:\n        normalized.append(ch)",
      "normalized.append(c)", rule="R16.3"),
    M("sanitiser: exception characters no longer excluded", "ufo2ft/fontInfoData.py", "normalizeStringForPostscript",
      "ch in _postscriptFontNameAllowed and ch not in _postscriptFontNameExceptions", "ch in _postscriptFontNameAllowed", rule="R16.3"),
    M("sanitiser: spaces always kept", "ufo2ft/fontInfoData.py", "normalizeStringForPostscript",
      "if allowSpaces:\n    normalized.append(ch)", "normalized.append(ch)", rule="R16.3"),
    M("sanitiser: printable test dropped (control characters leak)", "ufo2ft/fontInfoData.py", "normalizeStringForPostscript",
      "ch in _postscriptFontNameAllowed and ch not in _postscriptFontNameExceptions", "ch not in _postscriptFontNameExceptions", rule="R16.3"),
    M("generated PostScript name keeps spaces", "ufo2ft/fontInfoData.py", "normalizeNameForPostscript",
      "normalizeStringForPostscript(name, allowSpaces=False)", "normalizeStringForPostscript(name)", rule="R16.3c"),
    M("fallback PostScript name returned raw", "ufo2ft/fontInfoData.py", "postscriptFontNameFallback",
      "return normalizeNameForPostscript(name)", "return name.replace(' ', '')", rule="R16.3c"),
    M("CFF Notice stored without reduction", "ufo2ft/outlineCompiler.py", "OutlineOTFCompiler.setupTable_CFF",
      "trademark = normalizeStringForPostscript(trademark.replace('©', 'Copyright'))", "trademark = trademark.replace('©', 'Copyright')", rule="R16.3b"),
    M("InfoCompiler drops sTypoLineGap from its forward list", "ufo2ft/infoCompiler.py", "InfoCompiler.setupTable_OS2",
      "'sTypoLineGap'", "'sTypoLinegap'", rule="R16.4"),
    M("base head builder starts deriving a new field from info", "ufo2ft/outlineCompiler.py", "BaseOutlineCompiler.setupTable_head",
      "head.fontDirectionHint = 2", "head.fontDirectionHint = getAttrWithFallback(font.info, 'openTypeHeadFlags')[0]", rule="R16.4"),
    M("InfoCompiler forgets the post table", "ufo2ft/infoCompiler.py", "InfoCompiler",
      "frozenset(['head', 'hhea', 'name', 'OS/2', 'post', 'vhea', 'gasp'])", "frozenset(['head', 'hhea', 'name', 'OS/2', 'vhea', 'gasp'])", rule="R16.4"),
    M("name table stops reading the sample text", "ufo2ft/outlineCompiler.py", "BaseOutlineCompiler.setupTable_name",
      "getAttrWithFallback(font.info, 'openTypeNameSampleText')", "None", rule="R16.5"),
    M("win metrics fallback de-duplicated through the hhea attribute (cf. seeded/C16a)", "ufo2ft/fontInfoData.py", "openTypeOS2WinDescentFallback",
      "getAttrWithFallback(info, 'descender')", "getAttrWithFallback(info, 'openTypeHheaDescender')", rule="R16.6"),
    M("family-name fallback reads the raw style-map family", "ufo2ft/fontInfoData.py", "openTypeNamePreferredFamilyNameFallback",
      "getAttrWithFallback(info, 'familyName')", "info.styleMapFamilyName or getAttrWithFallback(info, 'familyName')", rule="R16.6"),
    # equivalents
    M("sanitiser written with continue-style guards", "ufo2ft/fontInfoData.py", "normalizeStringForPostscript",
      "for ch in c:\n    if ch == ' ':\n        if allowSpaces:\n            normalized.append(ch)\n    elif ch in _postscriptFontNameAllowed and ch not in _postscriptFontNameExceptions:\n        normalized.append(ch)",
      "for ch in c:\n    if ch == ' ' and not allowSpaces:\n        continue\n    if ch in _postscriptFontNameExceptions:\n        continue\n    if ch != ' ' and ch not in _postscriptFontNameAllowed:\n        continue\n    normalized.append(ch)",
      kind="equiv"),
    M("fallback helper extracted", "ufo2ft/fontInfoData.py", "ascenderFallback",
      "upm = getAttrWithFallback(info, 'unitsPerEm')\nreturn otRound(upm * 0.8)",
      "return otRound(getAttrWithFallback(info, 'unitsPerEm') * 0.8)", kind="equiv"),
    M("forward list written as a frozenset", "ufo2ft/infoCompiler.py", "InfoCompiler.setupTable_post",
      "{'italicAngle', 'underlinePosition', 'underlineThickness', 'isFixedPitch'}",
      "frozenset(['italicAngle', 'underlinePosition', 'underlineThickness', 'isFixedPitch'])", kind="equiv"),
]
