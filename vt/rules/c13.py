"""C13 - non-exported glyphs vanish without altering the remaining glyphs (structural clauses)."""

from __future__ import annotations

import ast

from ..core import astutil as A
from ..core.index import AnalysisError
from ..selftest import M
from .common import (BASE_COMPILER, may_conds, is_early_exit_guard, subscript_stores, T, attr_stores, calls_named, conds, entails, every_origin, facts, has_fact, key,
                     need, where)

PRE = "ufo2ft.preProcessor"
SKIP = "ufo2ft.filters.skipExportGlyphs"
KERN1 = "ufo2ft.featureWriters.kernFeatureWriter"
KERN2 = "ufo2ft.featureWriters.kernFeatureWriter2"


def run(prog, chk):
    chk.decided += [
        "the skip-export stage is applied to the glyph set(s) before any other filter is constructed or run, in all four pre-processors (R13.1)",
        "both sibling filters decompose only references to skipped glyphs (include=skip set, decomposeNested=False), then delete every skipped glyph from every glyph set and report it (R13.2)",
        "interpolatable decomposition first defines the composite at the locations of the transitive closure of the glyphs it inlines (R13.5)",
        "argument beats lib: every assignment of the compiler's skipExportGlyphs from a UFO / designspace lib is guarded by 'is None' (R13.3)",
        "kerning groups are intersected with the (filtered) glyph set and every recorded pair has each side either a known group or a glyph of the glyph set; GDEF classes are restricted to the ordered glyph set; writers take the glyph set from the compiler (R13.4)",
        "the kern writers' mark filtering set only lists exported glyphs, and the IgnoreMarks / filtering-set decision is made on the members of that set (R13.7)",
        "an instance generated from a designspace ends up with the designspace's skip list: nothing rewrites the instance's lib after it is stored (R13.8)",
    ]
    chk.decided += ["the decomposition helper hands the skip set (include) and decomposeNested to the pen exactly as the filters gave them: a skipped glyph nested in a skipped glyph is inlined too (R13.9 = R01.2 = R15.1)"]
    chk.decided += ["references to glyphs are only ever inlined by the four reviewed filter methods (decompose / skip-export, static and interpolatable), each resolving bases in the glyph set it works on: "
                    "no other code inlines a (skipped) glyph from some other layer or font object (R13.10)"]
    chk.not_decided += ["that the remaining glyphs render identically (decomposition arithmetic is fontTools')"]
    chk.guard(r131, prog, chk)
    chk.guard(r132, prog, chk)
    chk.guard(r133, prog, chk)
    chk.guard(r134, prog, chk)
    chk.guard(r135, prog, chk, "R13.5")
    from .c15 import check_single_decomposer
    chk.guard(check_single_decomposer, prog, chk, "R13.6")
    chk.guard(r137, prog, chk)
    chk.guard(r138, prog, chk)
    from . import c01
    chk.guard(c01.r012, prog, chk, "R13.9")
    chk.guard(r1310, prog, chk)
    from .c09 import check_location_memo_complete
    chk.guard(check_location_memo_complete, prog, chk, "R13.11")


# ----------------------------------------------------------------------------- R13.1
def r131(prog, chk):
    ix = prog.ix
    base = ix.get_method(f"{PRE}.BasePreProcessor", "__init__", own=True)
    fl = [c for c in calls_named(base, "from_layer")]
    need(len(fl) == 1, f"cannot interpret {base.short}: from_layer call")
    kw = A.kwarg(fl[0], "skipExportGlyphs")
    ok = isinstance(kw, ast.Name) and kw.id in base.params()
    st = [s for s, t, v in attr_stores(base, "glyphSet") if v is fl[0]]
    chk.ob("R13.1", key(base, "glyph set built with skipExportGlyphs"), ok and bool(st), where(base, fl[0]),
           detail="self.glyphSet = _GlyphSet.from_layer(..., skipExportGlyphs=<argument>)",
           message="the static pre-processor no longer hands its skipExportGlyphs argument to the glyph-set constructor")
    # static subclasses inherit __init__/process or chain to them
    for ci in ix.subclasses(f"{PRE}.BasePreProcessor", strict=True):
        for mname in ("__init__", "process"):
            if mname in ci.methods:
                m = ci.methods[mname]
                sup = [c for c in calls_named(m, mname) if isinstance(c.func.value, ast.Call) and A.callee_name(c.func.value) == "super"]
                chk.ob("R13.1", key(m, "chains to BasePreProcessor"), bool(sup), where(m), detail="override chains to super()",
                       message=f"{m.short} overrides the base pre-processor without chaining: the skip-export stage may be bypassed")
    proc = ix.get_method(f"{PRE}.BasePreProcessor", "process", own=True)
    runs = [c for c in A.body_nodes(proc.node) if isinstance(c, ast.Call) and isinstance(c.func, ast.Name) and len(c.args) == 2]
    ok = bool(runs) and all(every_origin(prog, proc, c.args[1], lambda e, f: T(e) == "self.glyphSet", allow_const=False)[0] for c in runs)
    chk.ob("R13.1", key(proc, "filters run on self.glyphSet"), ok, where(proc), detail="every filter receives the filtered glyph set",
           message="filters are run on something other than the skip-export-filtered glyph set")
    # from_layer applies the filter to the object it returns
    fl_fn = ix.get_method("ufo2ft.util._GlyphSet", "from_layer", own=True)
    rets = {T(r.value) for r in A.returns_of(fl_fn.node) if r.value is not None}
    need(len(rets) == 1, f"cannot interpret {fl_fn.short}")
    ret = rets.pop()
    apps = [c for c in A.body_nodes(fl_fn.node) if isinstance(c, ast.Call) and isinstance(c.func, ast.Call)
            and A.callee_name(c.func) == "SkipExportGlyphsFilter"]
    ok = False
    for c in apps:
        fs = facts(prog, fl_fn, c)
        ok = len(c.args) == 2 and T(c.args[1]) == ret and any(o == "truthy" and l == "skipExportGlyphs" for o, l, r in fs) \
            and T(c.func.args[0]) == "skipExportGlyphs" and prog.cfg(fl_fn).dominates(0, 0) \
            and all(d.kind == "param" for d in prog.reaching(fl_fn, "skipExportGlyphs", c.func.args[0]))
        cfg = prog.cfg(fl_fn)
        # no other exit when skipExportGlyphs is truthy: the application dominates nothing else needed,
        # but it must precede the return
        ok = ok and all(cfg.exists_path(cfg.node_of(c), [r]) for r in cfg.return_nodes())
    chk.ob("R13.1", key(fl_fn, "applies SkipExportGlyphsFilter to the returned glyph set"), ok, where(fl_fn),
           detail="SkipExportGlyphsFilter(skipExportGlyphs)(font, <returned set>) under 'if skipExportGlyphs'",
           message="_GlyphSet.from_layer no longer removes the skipped glyphs from the glyph set it returns")
    # interpolatable
    ib = ix.get_method(f"{PRE}.BaseInterpolatablePreProcessor", "__init__", own=True)
    cfg = prog.cfg(ib)
    runs = [c for c in calls_named(ib, "_run") if c.args and isinstance(c.args[0], ast.Call) and A.callee_name(c.args[0]) == "SkipExportGlyphsIFilter"]
    need(len(runs) == 1, f"cannot interpret {ib.short}: _run(SkipExportGlyphsIFilter(...))")
    r = runs[0]
    fs = facts(prog, ib, r)
    arg_ok = r.args[0].args and isinstance(r.args[0].args[0], ast.Name) and r.args[0].args[0].id in ib.params()
    # ... the argument as it was handed in: a set narrowed on the way (e.g. to the default source's glyphs) leaves skipped glyphs
    # of the other sources in their masters
    untouched = bool(arg_ok) and all(d.kind == "param" for d in prog.reaching(ib, r.args[0].args[0].id, r.args[0].args[0]))
    chk.ob("R13.1", key(ib, "the skip set reaches the filter as it was handed in"), untouched, where(ib, r), detail="parameter not rebound before SkipExportGlyphsIFilter(...)",
           message=f"{ib.short} rebinds the skip list before it reaches SkipExportGlyphsIFilter: names dropped from it (glyphs that only exist in a non-default source, say) "
                   f"are exported in the masters that have them")
    # every normally-completing path on which the argument is truthy runs the stage
    rn0 = cfg.node_of(r)
    guard_ok = arg_ok and not any(
        cfg.exists_path_edges(cfg.entry, x, avoid_nodes=[rn0], forbidden_edges=cfg.falsy_edges(T(r.args[0].args[0])))
        for x in cfg.normal_exit_preds() if x != rn0)
    chk.ob("R13.1", key(ib, "runs SkipExportGlyphsIFilter on the argument"), bool(arg_ok and guard_ok), where(ib, r),
           detail="if skipExportGlyphs: self._run(SkipExportGlyphsIFilter(skipExportGlyphs))",
           message="the interpolatable pre-processor no longer runs the skip-export filter for its argument")
    gs = [s for s, t, v in attr_stores(ib, "glyphSets")]
    later = [s for s, t, v in attr_stores(ib, "defaultFilters")] + [s for s, t, v in attr_stores(ib, "preFilters")] + \
            [s for s, t, v in attr_stores(ib, "postFilters")] + [prog.ix.enclosing_stmt(c) for c in calls_named(ib, "_load_custom_filters", "initDefaultFilters")]
    need(gs and later, f"cannot interpret {ib.short}")
    rn = cfg.node_of(r)
    ok_after = all(cfg.dominates(cfg.node_of(s), rn) for s in gs)
    ok_before = all(not cfg.exists_path(cfg.node_of(s), [rn]) for s in later)
    other_runs = [c for c in calls_named(ib, "_run", "_run_interpolatable", "process") if c is not r]
    chk.ob("R13.1", key(ib, "skip stage precedes every other filter"), ok_after and ok_before and not other_runs, where(ib, r),
           detail=f"after glyph sets exist: {ok_after}; before default/custom filters are even loaded: {ok_before}",
           message="in the interpolatable pre-processor another filter can be constructed or run before the skip-export stage")
    for ci in ix.subclasses(f"{PRE}.BaseInterpolatablePreProcessor", strict=True):
        if "__init__" in ci.methods:
            m = ci.methods["__init__"]
            sup = [c for c in calls_named(m, "__init__") if isinstance(c.func.value, ast.Call) and A.callee_name(c.func.value) == "super"]
            ok = bool(sup) and all(isinstance(A.kwarg(c, "skipExportGlyphs"), ast.Name) and A.kwarg(c, "skipExportGlyphs").id == "skipExportGlyphs" for c in sup)
            # nothing touching the glyph sets may precede the chained constructor
            chk.ob("R13.1", key(m, "passes skipExportGlyphs to the base constructor"), ok, where(m),
                   detail="super().__init__(..., skipExportGlyphs=skipExportGlyphs, ...)",
                   message=f"{m.short} does not pass skipExportGlyphs on: the skip-export stage is lost for this pre-processor")
    chk.minimum("R13.1", 6)


# ----------------------------------------------------------------------------- R13.2
def r132(prog, chk):
    ix = prog.ix
    for cname in ("SkipExportGlyphsFilter", "SkipExportGlyphsIFilter"):
        ci = ix.get_class(f"{SKIP}.{cname}")
        f = ci.methods.get("filter")
        need(f is not None, f"{cname}.filter vanished")
        dcs = [c for c in A.body_nodes(f.node) if isinstance(c, ast.Call) and prog.is_call_to(f, c, "ufo2ft.util.decomposeCompositeGlyph")]
        if not dcs:
            chk.ob("R13.2", f"{f.short}|references to skipped glyphs are inlined through util.decomposeCompositeGlyph", False, where(f),
                   message=f"{f.short} no longer inlines references to skipped glyphs through util.decomposeCompositeGlyph(include=<skip set>, decomposeNested=False): flipped "
                           f"components, nested skipped glyphs and missing components are handled by other code")
            continue
        for c in dcs:
            inc = A.kwarg(c, "include")
            dn = A.kwarg(c, "decomposeNested")
            ok = inc is not None and T(inc) == "self.options.skipExportGlyphs" and dn is not None and A.is_const(dn, False)
            chk.ob("R13.2", key(f, c), ok, where(f, c),
                   detail=f"include={T(inc) if inc else None}, decomposeNested={T(dn) if dn else None}",
                   message=f"{f.short}: references are not decomposed with include=<skip set>, decomposeNested=False "
                           "(other components would be decomposed too, or skipped references kept)")
        call = ci.methods.get("__call__")
        need(call is not None, f"{cname}.__call__ vanished")
        rets = [r for r in A.returns_of(call.node) if r.value is not None]
        dels = [n for n in A.body_nodes(call.node) if isinstance(n, ast.Delete)]
        need(dels, f"cannot interpret {call.short}: no deletion from the glyph set")
        for d in dels:
            t = d.targets[0]
            ok_shape = isinstance(t, ast.Subscript)
            k = t.slice if ok_shape else None
            # the loop that drives the deletion iterates the skip set
            loops = [a for a in ix.ancestors(d) if isinstance(a, ast.For)]
            drives = any(T(l.iter) == "self.options.skipExportGlyphs" and k is not None and T(k) in A.target_names(l.target) for l in loops)
            # reported: <returned set>.add(key) in the same block
            blk = ix.parent(d)
            adds = []
            for fld in ("body", "orelse"):
                b = getattr(blk, fld, [])
                if d in b:
                    for st in b:
                        for c in A.calls_in(st):
                            if A.callee_name(c) == "add" and c.args and k is not None and T(c.args[0]) == T(k):
                                adds.append(c)
            ret_names = {T(r.value) for r in rets}
            rep = any(T(c.func.value) in ret_names for c in adds)
            chk.ob("R13.2", key(call, d), ok_shape and drives and rep, where(call, d),
                   detail=f"every skipped name is deleted (loop over the skip set: {drives}) and added to the returned set: {rep}",
                   message=f"{call.short}: a removed glyph is not reported in the returned 'modified' set, or not every skipped glyph is removed")
        # the returned set is the one super().__call__ produced (so decomposed glyphs are reported too)
        sup = [c for c in calls_named(call, "__call__") if isinstance(c.func.value, ast.Call) and A.callee_name(c.func.value) == "super"]
        ok = bool(sup)
        ccfg = prog.cfg(call)
        main_rets = [r for r in rets if sup and ccfg.exists_path(ccfg.node_of(sup[0]), [ccfg.node_of(r)])]
        ok = ok and bool(main_rets) and all(every_origin(prog, call, r.value, lambda e, ff: e is sup[0], allow_const=False)[0] for r in main_rets)
        chk.ob("R13.2", key(call, "returns super().__call__() result"), ok, where(call),
               detail="the set of decomposed glyphs is part of the result",
               message=f"{call.short} does not return the set produced by the base __call__ (decomposed glyphs unreported)")
    chk.minimum("R13.2", 6)


# ----------------------------------------------------------------------------- R13.5 (shared with C09)
def r135(prog, chk, rule):
    """Interpolatable decomposition: before references are inlined the composite is
    made present at every source location of every glyph that will be inlined -
    transitively.  (a) each I-filter that decomposes calls
    ensureCompositeDefinedAtComponentLocations first, with the same `include` as
    the decomposition; (b) the location collector recurses on every path on which
    it counts a base glyph's own locations (closure, not just direct references)."""
    ix = prog.ix
    BI = "ufo2ft.filters.base.BaseIFilter"
    n = 0
    for ci in ix.subclasses(BI, strict=True):
        f = ci.methods.get("filter")
        if f is None:
            continue
        dcs = [c for c in A.body_nodes(f.node) if isinstance(c, ast.Call) and prog.is_call_to(f, c, "ufo2ft.util.decomposeCompositeGlyph")]
        if not dcs:
            continue
        cfg = prog.cfg(f)
        ens = [c for c in calls_named(f, "ensureCompositeDefinedAtComponentLocations") if T(c.func.value) == "self"]
        for d in dcs:
            n += 1
            inc = A.kwarg(d, "include")
            ok = False
            why = "no call"
            for e in ens:
                einc = A.arg_at(e, 1, "include")
                same_inc = (inc is None and einc is None) or (inc is not None and einc is not None and T(inc) == T(einc))
                narrowing = [k.arg for k in e.keywords if k.arg not in ("include",)] + [T(a) for a in e.args[2:]]
                first_ok = e.args and T(e.args[0]) == f.params()[1]
                dom = cfg.dominates(cfg.node_of(e), cfg.node_of(d))
                if same_inc and not narrowing and first_ok and dom:
                    ok = True
                else:
                    why = f"include agrees: {same_inc}; extra restricting arguments: {narrowing}; dominates the decomposition: {dom}"
            chk.ob(rule, f"{f.short}|composite defined at the locations of everything that is inlined", ok, where(f, d),
                   detail="ensureCompositeDefinedAtComponentLocations(name, include=<same set>) dominates decomposeCompositeGlyph" if ok else why,
                   message=f"{f.short} inlines component references without first interpolating the composite at all the locations of the "
                           f"inlined glyphs ({why}): masters become incompatible / the variable font renders the glyph differently")
    col = ix.get_method(BI, "locationsFromComponentGlyphs", own=True)
    cfg = prog.cfg(col)
    direct = [c for c in calls_named(col, "glyphSourceLocations")]
    rec = [c for c in calls_named(col, "locationsFromComponentGlyphs")]
    need(direct and rec, f"cannot interpret {col.short}: direct / recursive location collection not found")
    rec_nodes = {cfg.node_of(c) for c in rec}
    # reading the per-run memo counts as the recursion's answer (that the memo holds nothing less is R09.14 = R13.11)
    for sub in ast.walk(col.node):
        if isinstance(sub, ast.Subscript) and isinstance(sub.ctx, ast.Load) and rec and rec[0].args and T(sub.slice) == T(rec[0].args[0]) \
                and every_origin(prog, col, sub.value, lambda x, ff: isinstance(x, ast.Attribute) and x.attr == "componentLocations", allow_const=False)[0]:
            nd = cfg.node_of(sub)
            if nd is not None:
                rec_nodes.add(nd)
    for dcall in direct:
        n += 1
        dn = cfg.node_of(dcall)
        arg = T(dcall.args[0]) if dcall.args else None
        same_arg = all(T(r.args[0]) == arg for r in rec if r.args)
        # from the direct add, every path to the loop header / exit passes a statement containing the recursion
        loops = [a for a in ix.ancestors(dcall) if isinstance(a, ast.For)]
        targets = [cfg.node_of(l) for l in loops[:1]] + [cfg.exit]
        leak = cfg.exists_path(dn, targets, avoid=rec_nodes) if dn not in rec_nodes else False
        # the include filter is handed on unchanged
        passes_include = all(len(r.args) >= 2 and T(r.args[1]) == col.params()[2] or (A.kwarg(r, col.params()[2]) is not None and T(A.kwarg(r, col.params()[2])) == col.params()[2]) for r in rec)
        chk.ob(rule, f"{col.short}|location closure is transitive", (not leak) and same_arg and passes_include, where(col, dcall),
               detail="every path that counts a base glyph's own locations also recurses into that base glyph (with the same include set)",
               message="locationsFromComponentGlyphs can stop at the direct references: a skipped / decomposed glyph nested inside another one "
                       "contributes no locations although the decomposing pen still inlines it")
    en = ix.get_method(BI, "ensureCompositeDefinedAtComponentLocations", own=True)
    calls = calls_named(en, "locationsFromComponentGlyphs")
    need(calls, f"cannot interpret {en.short}")
    for c in calls:
        n += 1
        extra = [k.arg for k in c.keywords if k.arg not in (en.params()[2],)] + [T(a) for a in c.args[2:]]
        ok = len(c.args) >= 1 and T(c.args[0]) == en.params()[1] and not extra and \
            (T(A.arg_at(c, 1, en.params()[2])) == en.params()[2] if A.arg_at(c, 1, en.params()[2]) is not None else False)
        chk.ob(rule, f"{en.short}|uses the full closure", ok, where(en, c), detail="needLocations = locationsFromComponentGlyphs(name, include)",
               message="ensureCompositeDefinedAtComponentLocations narrows the set of locations it asks for")
    chk.minimum(rule, 4)


# ----------------------------------------------------------------------------- R13.3
def r133(prog, chk):
    n = 0
    for fi in prog.ix.functions.values():
        if not fi.module.name.startswith("ufo2ft._compilers"):
            continue
        for st, t, v in attr_stores(fi, "skipExportGlyphs"):
            if not (isinstance(t.value, ast.Name) and t.value.id == "self"):
                continue
            n += 1
            fs = facts(prog, fi, st)
            ok = any(o == "is" and l == "self.skipExportGlyphs" and r == "None" for o, l, r in fs)
            chk.ob("R13.3", key(fi, st), ok, where(fi, st),
                   detail="assignment from a lib is guarded by 'self.skipExportGlyphs is None'",
                   message="the skipExportGlyphs argument is overwritten by the lib value (argument must win; the static and list "
                           "entry points honour it, this path does not)")
    need(n >= 3, "skipExportGlyphs assignments in the compilers not found")
    # the union over a list of UFOs takes the lib key of EVERY UFO of the list (a sparse-layer UFO has a lib too)
    pre = prog.ix.get_method(BASE_COMPILER, "preprocess", own=True)
    ups = [c for c in A.body_nodes(pre.node) if isinstance(c, ast.Call) and isinstance(c.func, ast.Attribute) and c.func.attr in ("update", "__ior__")
           and T(c.func.value) == "self.skipExportGlyphs"]
    ups += [st for st in A.stmts_of(pre.node) if isinstance(st, ast.AugAssign) and T(st.target) == "self.skipExportGlyphs"]
    need(ups, f"cannot interpret {pre.short}: union of the UFOs' skip lists")
    src = pre.params()[1]
    for u in ups:
        loops = [a for a in prog.ix.ancestors(u) if isinstance(a, ast.For)]
        ok = len(loops) == 1 and T(loops[0].iter) == src and isinstance(loops[0].target, ast.Name)
        if ok:
            inner = [g for g in may_conds(prog, pre, u) if g.polarity in (True, False) and any(a is loops[0] for a in prog.ix.ancestors(g.loc))]
            ok = not inner and not [x for x in ast.walk(loops[0]) if isinstance(x, (ast.Break, ast.Return))]
            v = u.args[0] if isinstance(u, ast.Call) else u.value
            ok = ok and f"{loops[0].target.id}.lib" in T(v) and "public.skipExportGlyphs" in T(v)
        chk.ob("R13.3", key(pre, "every UFO of the list contributes its public.skipExportGlyphs"), ok, where(pre, u), detail=f"for ufo in {src}: update(ufo.lib.get(...)) without a per-UFO condition",
               message=f"{pre.short}: the skip list is no longer the union of the lib keys of all UFOs handed in (some UFOs are passed over): glyphs listed only there are exported")
    chk.minimum("R13.3", 4)


# ----------------------------------------------------------------------------- R13.4
def _glyphset_origin(prog, fi, name_node) -> bool:
    memo = prog.__dict__.setdefault("_c13_gs_memo", {})
    k = (fi.qname, id(name_node))
    if k not in memo:
        memo[k] = _glyphset_origin_uncached(prog, fi, name_node)
    return memo[k]


def _call_sites(prog, fname: str):
    memo = prog.__dict__.setdefault("_c13_sites_memo", {})
    if fname not in memo:
        memo[fname] = [c for g in prog.ix.functions.values() for c in calls_named(g, fname)]
    return memo[fname]


def _glyphset_origin_uncached(prog, fi, name_node) -> bool:
    ok, _bad = every_origin(prog, fi, name_node, lambda e, f: isinstance(e, ast.Attribute) and e.attr == "glyphSet", allow_const=False)
    if ok:
        return True
    # parameter named by the caller with a glyph set (getVariableKerningPairs(..., self.context.glyphSet, ...))
    if isinstance(name_node, ast.Name) and name_node.id in fi.params():
        idx = [p for p in fi.params()].index(name_node.id)
        sites = _call_sites(prog, fi.name)
        if not sites:
            return False
        for c in sites:
            a = c.args[idx] if idx < len(c.args) else A.kwarg(c, name_node.id)
            if a is None or not (isinstance(a, ast.Attribute) and a.attr == "glyphSet"):
                return False
        return True
    return False


def check_scripts_from_exported_glyphs(prog, chk, rule):
    """guessFontScripts only classifies the code points of glyphs that are in the writer's glyph set: scripts of skipped
    (non-exported) glyphs are not scripts of the font.  Shared with C20 (R20.6: a script registered for kerning only)."""
    ix = prog.ix
    # scripts are guessed from the code points of exported glyphs only
    gs = ix.get_method("ufo2ft.featureWriters.baseFeatureWriter.BaseFeatureWriter", "guessFontScripts", own=True)
    cl = [c for c in calls_named(gs, "unicodeScriptExtensions")]
    need(cl, f"cannot interpret {gs.short}: no script classification of code points")
    for c in cl:
        fs = facts(prog, gs, c)
        ok = any(o == "in" and l.endswith(".name") and any(isinstance(n_, ast.Name) and n_.id == r and _glyphset_origin(prog, gs, n_) for n_ in ast.walk(gs.node)) for o, l, r in fs)
        chk.ob(rule, key(gs, "scripts are guessed from exported glyphs only"), ok, where(gs, c), detail="glyph.name in glyphSet on every path to unicodeScriptExtensions",
               message=f"{gs.short}: code points of glyphs outside the writer's glyph set (skipped glyphs) take part in guessing the font's scripts")


def r134(prog, chk):
    ix = prog.ix
    groups_fns = [ix.get_method(f"{KERN1}.KernFeatureWriter", "getKerningGroups", own=True), ix.get_func(f"{KERN2}:get_kerning_groups")]
    for f in groups_fns:
        rets = [r for r in A.returns_of(f.node) if isinstance(r.value, ast.Tuple)]
        need(rets, f"cannot interpret {f.short}")
        ret_names = {e.id for r in rets for e in r.value.elts if isinstance(e, ast.Name)}
        stores = []
        for st in A.stmts_of(f.node):
            if isinstance(st, ast.Assign) and isinstance(st.targets[0], ast.Subscript) and isinstance(st.targets[0].value, ast.Name) \
                    and st.targets[0].value.id in ret_names:
                stores.append(st)
        need(len(stores) >= 2, f"cannot interpret {f.short}: group stores not found")
        for st in stores:
            inner = [n for n in ast.walk(st.value) if isinstance(n, ast.Name) and isinstance(n.ctx, ast.Load) and n.id not in ("tuple", "sorted", "list", "set", "frozenset")]
            ok = bool(inner)
            for nm in inner:
                def filt(e, ff):
                    if isinstance(e, (ast.SetComp, ast.ListComp, ast.GeneratorExp)) and len(e.generators) == 1:
                        g = e.generators[0]
                        for c in g.ifs:
                            p = A.compare_parts(c)
                            if p and isinstance(p[1], ast.In) and isinstance(p[0], ast.Name) and p[0].id in A.target_names(g.target) \
                                    and T(e.elt) == T(p[0]) and isinstance(p[2], ast.Name) and _glyphset_origin(prog, ff, p[2]):
                                return True
                    return False
                o, _b = every_origin(prog, f, nm, filt, allow_const=False)
                ok = ok and o
            chk.ob("R13.4", key(f, st), ok, where(f, st), detail="group members are filtered by membership in the writer's glyph set",
                   message=f"{f.short}: kerning group members are not restricted to the exported glyph set (skipped glyphs reach the class definitions)")
    pair_fns = [ix.get_method(f"{KERN1}.KernFeatureWriter", "getKerningPairs", own=True),
                ix.get_method(f"{KERN1}.KernFeatureWriter", "getVariableKerningPairs", own=True),
                ix.get_func(f"{KERN2}:get_kerning_pairs"), ix.get_func(f"{KERN2}:get_variable_kerning_pairs")]
    for f in pair_fns:
        n_sinks = 0
        for loop in [n for n in A.body_nodes(f.node) if isinstance(n, ast.For)]:
            # pair-key components: `for (a, b), v in X` or `a, b = pair` as first statement
            comps = None
            tgt = loop.target
            if isinstance(tgt, ast.Tuple) and tgt.elts and isinstance(tgt.elts[0], ast.Tuple) and len(tgt.elts[0].elts) == 2:
                comps = [e.id for e in tgt.elts[0].elts if isinstance(e, ast.Name)]
                origin_stmt = loop
            elif isinstance(tgt, ast.Name):
                for st in loop.body:
                    if isinstance(st, ast.Assign) and isinstance(st.targets[0], ast.Tuple) and len(st.targets[0].elts) == 2 \
                            and isinstance(st.value, ast.Name) and st.value.id == tgt.id:
                        comps = [e.id for e in st.targets[0].elts if isinstance(e, ast.Name)]
                        origin_stmt = st
                        break
            if not comps or len(comps) != 2:
                continue
            # does this loop filter by glyph set at all? (the final assembling loop of the variable version does not re-filter)
            sinks = []
            for c in A.walk_local(loop):
                if isinstance(c, ast.Call):
                    names = {n.id for a in list(c.args) for n in ast.walk(a) if isinstance(n, ast.Name)}
                    if set(comps) <= names and A.callee_name(c) in ("KerningPair", "setdefault"):
                        sinks.append(c)
            # only loops that read the UFO kerning keys need the guard
            def mentions_kerning(e):
                return any(isinstance(n, ast.Attribute) and n.attr == "kerning" for n in ast.walk(e))
            reads_kerning = mentions_kerning(loop.iter)
            for nm in [n for n in ast.walk(loop.iter) if isinstance(n, ast.Name)]:
                for d in prog.cfg(f).defs_of(nm.id):
                    if d.value is not None and mentions_kerning(d.value):
                        reads_kerning = True
            if not reads_kerning:
                continue
            for s in sinks:
                n_sinks += 1

                def atomize(e, _f=f, _comps=comps):
                    if isinstance(e, ast.Name):
                        ds = prog.reaching(_f, e.id, e)
                        if len(ds) == 1:
                            v, how = ds[0].element()
                            if how is None and isinstance(v, ast.Compare):
                                return atomize(v)
                        return None
                    p = A.compare_parts(e)
                    if p and isinstance(p[1], (ast.In, ast.NotIn)) and isinstance(p[0], ast.Name) and p[0].id in _comps:
                        # the tested name must still be the raw key component
                        ds = prog.reaching(_f, p[0].id, p[0])
                        if not all(d.binder is origin_stmt for d in ds):
                            return None
                        kind = "gs" if isinstance(p[2], ast.Name) and _glyphset_origin(prog, _f, p[2]) else "cls"
                        return ((kind, p[0].id), isinstance(p[1], ast.In))
                    return None

                a, b = comps
                goal = lambda env: (env[("cls", a)] or env[("gs", a)]) and (env[("cls", b)] or env[("gs", b)])
                ok = entails([c for c in conds(prog, f, s) if c.polarity in (True, False)], atomize, goal,
                             goal_atoms=(("cls", a), ("gs", a), ("cls", b), ("gs", b)))
                chk.ob("R13.4", key(f, s), ok, where(f, s),
                       detail="each side of a recorded pair is a known kerning group or a glyph of the (filtered) glyph set",
                       message=f"{f.short}: a kerning pair naming a skipped / missing glyph can be recorded")
        need(n_sinks >= 1, f"cannot interpret {f.short}: pair recording site not found")
    # GDEF classes restricted to the ordered (exported) glyph set
    gw = ix.get_class("ufo2ft.featureWriters.gdefFeatureWriter.GdefFeatureWriter")
    w = gw.methods["_write"]
    gcs = [c for c in calls_named(w, "GlyphClassDefStatement")]
    need(gcs, "GdefFeatureWriter._write: GlyphClassDefStatement not found")
    for c in gcs:
        for i, a in enumerate(c.args):
            inner = a.args[0] if isinstance(a, ast.Call) and A.callee_name(a) == "GlyphClass" and a.args else a
            ok = False
            if isinstance(inner, ast.Call):
                ts, how = prog.resolve_callee(w, inner.func)
                for t in ts:
                    if hasattr(t, "node") and how in ("exact", "cha"):
                        rr = A.returns_of(t.node)
                        ok = bool(rr) and all(_restricted_to_ordered(prog, t, r.value) for r in rr)
            chk.ob("R13.4", key(w, f"GlyphClassDef argument {i}"), ok, where(w, a),
                   detail="class members are drawn from the ordered (exported) glyph set",
                   message="a GDEF glyph class can list glyphs that are not exported (not restricted to the ordered glyph set)")
    # the ordered glyph set is the compiler's
    bw = ix.get_method("ufo2ft.featureWriters.baseFeatureWriter.BaseFeatureWriter", "getOrderedGlyphSet", own=True)
    ok = False
    for r in A.returns_of(bw.node):
        if r.value is not None and isinstance(r.value, ast.Attribute) and r.value.attr == "glyphSet":
            fs = facts(prog, bw, r)
            if any(o == "isnot" and rr == "None" for o, l, rr in fs) and every_origin(prog, bw, r.value.value, lambda e, f: T(e).endswith(".compiler"), allow_const=False)[0]:
                ok = True
    chk.ob("R13.4", key(bw, "returns compiler.glyphSet"), ok, where(bw), detail="writers work from the compiler's filtered glyph set",
           message="feature writers no longer take their glyph set from the feature compiler")
    fc = ix.get_class("ufo2ft.featureCompiler.FeatureCompiler")
    for mq in ("ufo2ft.featureCompiler.FeatureCompiler", "ufo2ft.featureCompiler.VariableFeatureCompiler"):
        m = ix.get_method(mq, "setupFeatures", own=True)
        ws = [c for c in calls_named(m, "write")]
        ok = bool(ws) and all(A.kwarg(c, "compiler") is not None and T(A.kwarg(c, "compiler")) == "self" for c in ws)
        chk.ob("R13.4", key(m, "writer.write(..., compiler=self)"), ok, where(m), detail="writers run in the compiler's context",
               message=f"{m.short} runs writers without compiler=self: they fall back to the unfiltered font")
    bc = ix.get_method("ufo2ft.featureCompiler.BaseFeatureCompiler", "__init__", own=True)
    st = [v for s, t, v in attr_stores(bc, "glyphSet")]
    ok = bool(st) and all("glyphSet[" in T(v) and "glyphOrder" in T(v) for v in st)
    chk.ob("R13.4", key(bc, "compiler.glyphSet = the given glyph set in font order"), ok, where(bc), detail=T(st[0]) if st else "",
           message="the feature compiler's glyph set is not built from the pre-processed glyph set it was given")
    cf = ix.get_method(BASE_COMPILER, "compileFeatures", own=True)
    ctor = [c for c in A.body_nodes(cf.node) if isinstance(c, ast.Call) and isinstance(c.func, ast.Attribute) and c.func.attr == "featureCompilerClass"]
    ok = bool(ctor) and all(A.kwarg(c, "glyphSet") is not None and T(A.kwarg(c, "glyphSet")) == "glyphSet" for c in ctor)
    chk.ob("R13.4", key(cf, "feature compiler receives glyphSet"), ok, where(cf), detail="featureCompilerClass(..., glyphSet=glyphSet)",
           message="compileFeatures does not hand the pre-processed glyph set to the feature compiler")
    check_scripts_from_exported_glyphs(prog, chk, "R13.4")
    chk.minimum("R13.4", 15)


def _restricted_to_ordered(prog, fi, e) -> bool:
    """e evaluates to a sequence drawn from the ordered glyph set."""
    if isinstance(e, ast.Call) and A.callee_name(e) in ("sorted", "list", "tuple") and e.args:
        return _restricted_to_ordered(prog, fi, e.args[0])
    if isinstance(e, (ast.GeneratorExp, ast.ListComp, ast.SetComp)) and len(e.generators) == 1:
        g = e.generators[0]
        it = T(g.iter)
        return "orderedGlyphSet" in it and T(e.elt) in A.target_names(g.target)
    return False



# ----------------------------------------------------------------------------- R13.7
def _mentions_glyphset(prog, fi, e) -> bool:
    for n in ast.walk(e):
        if isinstance(n, ast.Attribute) and n.attr == "glyphSet":
            return True
        if isinstance(n, ast.Name) and _glyphset_origin(prog, fi, n):
            return True
    return False


def _restricted_to_glyphset(prog, fi, e, depth=0) -> bool:
    """e denotes glyph names that are all members of the writer's (exported) glyph set."""
    if depth > 6:
        return False
    if isinstance(e, (ast.List, ast.Tuple, ast.Set)) and not e.elts:
        return True
    if isinstance(e, ast.BinOp) and isinstance(e.op, ast.BitAnd):
        return _mentions_glyphset(prog, fi, e.left) or _mentions_glyphset(prog, fi, e.right) \
            or _restricted_to_glyphset(prog, fi, e.left, depth + 1) or _restricted_to_glyphset(prog, fi, e.right, depth + 1)
    if isinstance(e, ast.Call):
        cn = A.callee_name(e)
        if cn in ("set", "list", "sorted", "tuple", "frozenset") and e.args:
            return _restricted_to_glyphset(prog, fi, e.args[0], depth + 1)
        if cn and "spacingmarks" in cn.lower().replace("_", "") and e.args:
            # the helper returns a sub-list of its last argument
            return _restricted_to_glyphset(prog, fi, e.args[-1], depth + 1)
        if cn == "intersection" and isinstance(e.func, ast.Attribute):
            return any(_mentions_glyphset(prog, fi, a) for a in e.args) or _mentions_glyphset(prog, fi, e.func.value)
        return False
    if isinstance(e, (ast.ListComp, ast.SetComp, ast.GeneratorExp)) and len(e.generators) == 1:
        g = e.generators[0]
        tn = A.target_names(g.target)
        if T(e.elt) in tn:
            for c in g.ifs:
                pp = A.compare_parts(c)
                if pp and isinstance(pp[1], ast.In) and T(pp[0]) == T(e.elt) and _mentions_glyphset(prog, fi, pp[2]):
                    return True
            return _restricted_to_glyphset(prog, fi, g.iter, depth + 1)
        return False
    if isinstance(e, ast.Name):
        ds = prog.reaching(fi, e.id, e)
        if not ds:
            return False
        for d in ds:
            v, how = d.element()
            if v is None or how is not None:
                return False
            if not _restricted_to_glyphset(prog, fi, v, depth + 1):
                return False
        return True
    return False


def _derives_from(prog, fi, e, src) -> bool:
    """e is src, or a comprehension / copy over src."""
    if T(e) == T(src):
        return True
    if isinstance(e, (ast.ListComp, ast.SetComp, ast.GeneratorExp)) and len(e.generators) == 1 and T(e.elt) in A.target_names(e.generators[0].target):
        return _derives_from(prog, fi, e.generators[0].iter, src)
    if isinstance(e, ast.Call) and A.callee_name(e) in ("set", "list", "sorted", "tuple", "frozenset") and e.args:
        return _derives_from(prog, fi, e.args[0], src)
    return False


def r137(prog, chk):
    """Spacing marks block kerning through a mark filtering set.  The set's members and the decision
    'is there any spacing mark at all' are taken from the same value, and that value only holds exported glyphs
    (GDEF classes come from the lib / feature file and still list skipped glyphs)."""
    ix = prog.ix
    fns = [ix.get_method(f"{KERN1}.KernFeatureWriter", "_makeKerningLookup", own=True), ix.get_func(f"{KERN2}:make_kerning_lookup")]
    n = 0
    for f in fns:
        sinks = [c for c in calls_named(f, "makeGlyphClassDefinitions")]
        need(sinks, f"cannot interpret {f.short}: the mark filtering class is not built here")
        for c in sinks:
            d_ = c.args[0] if c.args else None
            need(isinstance(d_, ast.Dict) and len(d_.values) == 1, f"cannot interpret {f.short}: filtering class argument")
            members = d_.values[0]
            n += 1
            ok = _restricted_to_glyphset(prog, f, members)
            chk.ob("R13.7", key(f, "mark filtering set only lists exported glyphs"), ok, where(f, c), detail=T(members, 60),
                   message=f"{f.short}: the mark filtering set `{T(members, 50)}` is not restricted to the writer's glyph set: skipped (non-exported) marks take part")
            # the decision under which the set is used is an emptiness test of the very same value
            tests = []
            for g in may_conds(prog, f, c):
                t = g.test
                t = t.operand if isinstance(t, ast.UnaryOp) and isinstance(t.op, ast.Not) else t
                tests.append(t)
            same = False
            for t in tests:
                if isinstance(t, ast.Name) and isinstance(members, ast.Name) and t.id == members.id:
                    da = {x.node for x in prog.reaching(f, t.id, t)}
                    db = {x.node for x in prog.reaching(f, members.id, members)}
                    same = same or da == db
                elif not isinstance(t, ast.Name) and T(t) == T(members):
                    same = True
                # a test value that is itself restricted to the glyph set makes a later re-filtering a no-op
                if not same and isinstance(t, (ast.Name, ast.Call, ast.BinOp)) and _restricted_to_glyphset(prog, f, t) and _derives_from(prog, f, members, t):
                    same = True
            chk.ob("R13.7", key(f, "IgnoreMarks / filtering-set decision is made on the members of the set"), same, where(f, c), detail=str([T(t, 40) for t in tests]),
                   message=f"{f.short}: the choice between IgnoreMarks and a mark filtering set is made on {[T(t, 40) for t in tests]} but the set lists `{T(members, 50)}`: "
                           f"when the two differ (skipped spacing marks) an empty filtering set is emitted and the lookup loses IgnoreMarks")
    chk.minimum("R13.7", 4)



# ----------------------------------------------------------------------------- R13.8
def r138(prog, chk):
    """An instance generated from a designspace carries the designspace's skip list, and nothing written afterwards can replace
    it with the default master's own lib key: the store of public.skipExportGlyphs into the instance's lib comes from the
    instantiator's designspace-level list and no bulk write of that lib (assignment, update) can follow it."""
    ix = prog.ix
    gi = ix.get_method("ufo2ft.instantiator.Instantiator", "generate_instance", own=True)
    cfg = prog.cfg(gi)
    st = [(s_, t_, v_) for s_, t_, v_ in subscript_stores(gi) if A.is_const(t_.slice, "public.skipExportGlyphs") and T(t_.value).endswith(".lib")]
    need(len(st) == 1, f"cannot interpret {gi.short}: store of public.skipExportGlyphs")
    s0, t0, v0 = st[0]
    lib = T(t0.value)
    ok_src = "self.skip_export_glyphs" in T(v0)
    bulk = [s_ for s_, t_, v_ in attr_stores(gi, "lib") if T(t_) == lib]
    bulk += [ix.enclosing_stmt(c) for c in A.body_nodes(gi.node) if isinstance(c, ast.Call) and isinstance(c.func, ast.Attribute) and c.func.attr in ("update", "clear", "__ior__") and T(c.func.value) == lib]
    bulk += [s_ for s_ in A.stmts_of(gi.node) if isinstance(s_, ast.AugAssign) and T(s_.target) == lib]
    later = [b for b in bulk if cfg.exists_path(cfg.node_of(s0), [cfg.node_of(b)])]
    chk.ob("R13.8", key(gi, "the designspace's skip list is the last word in the instance's lib"), ok_src and not later and not [g for g in may_conds(prog, gi, s0) if g.kind in ("if", "boolop") and not is_early_exit_guard(prog, gi, g)], where(gi, s0),
           detail=f"{T(s0, 70)}; bulk writes of {lib} afterwards: {len(later)}",
           message=f"{gi.short}: the designspace-level public.skipExportGlyphs is not what the instance ends up with (it is not taken from the instantiator's list, is conditional, or "
                   f"`{T(later[0], 50) if later else ''}` rewrites the lib afterwards): the default master's own key decides which glyphs the instance exports")
    chk.minimum("R13.8", 1)


# ----------------------------------------------------------------------------- R13.10
DECOMPOSE_CALLERS = {
    "DecomposeComponentsFilter.filter": "self.context.glyphSet",
    "DecomposeComponentsIFilter.filter": "interpolatedLayer or glyphSet",
    "SkipExportGlyphsFilter.filter": "self.context.glyphSet",
    "SkipExportGlyphsIFilter.filter": "interpolatedLayer or glyphSet",
}


def r1310(prog, chk):
    """Who may call util.decomposeCompositeGlyph, and with which glyph set: the reviewed callers resolve component bases in the
    very glyph set they filter (or its interpolated stand-in).  A new caller that resolves bases somewhere else (the font's
    default layer for a glyph of another layer) inlines the wrong outline."""
    ix = prog.ix
    n = 0
    for fi in ix.functions.values():
        if isinstance(fi.node, ast.Lambda):
            continue
        for c in calls_named(fi, "decomposeCompositeGlyph"):
            if fi.short == "deepCopyContours":
                continue
            n += 1
            want = DECOMPOSE_CALLERS.get(fi.short)
            gs = A.arg_at(c, 1, "glyphSet")
            ok = want is not None and gs is not None
            if ok:
                def is_set(x, ff):
                    return T(x) == "self.context.glyphSet" or (isinstance(x, ast.BoolOp) and isinstance(x.op, ast.Or) and len(x.values) == 2)
                ok = T(gs) == want or every_origin(prog, fi, gs, is_set, allow_const=False)[0]
            chk.ob("R13.10", f"{fi.short}|{A.keytext(fi.node, c)}|reviewed caller of the decomposition helper, bases resolved in the glyph set being filtered", ok, where(fi, c), detail=want or "not a reviewed caller",
                   message=f"{fi.short} calls decomposeCompositeGlyph (`{T(c, 60)}`) and is not one of the reviewed callers {sorted(DECOMPOSE_CALLERS)} / resolves bases elsewhere: "
                           f"a glyph reference is inlined from a glyph set other than the one being compiled (e.g. the default layer's outline for a colour-layer glyph)")
    need(n >= 4, f"R13.10: decomposeCompositeGlyph call sites: {n}")
    chk.minimum("R13.10", 4)


MUTANTS = [
    M("colour-layer components on skipped glyphs inlined from the font's default layer (seeded C13m)", "ufo2ft/filters/explodeColorLayerGlyphs.py", "ExplodeColorLayerGlyphsFilter._copyGlyph",
      "layerGlyph = layerGlyphSet[glyphName]", "layerGlyph = layerGlyphSet[glyphName]\nfrom ufo2ft.util import decomposeCompositeGlyph\ndecomposeCompositeGlyph(layerGlyph, self.context.font, include=set())", rule="R13.10"),
    M("skip list narrowed to the default source's glyphs before the interpolatable filter runs (seeded C13k)", "ufo2ft/preProcessor.py", "BaseInterpolatablePreProcessor.__init__",
      "if skipExportGlyphs:\n    from ufo2ft.filters.skipExportGlyphs import SkipExportGlyphsIFilter\n    self._run(SkipExportGlyphsIFilter(skipExportGlyphs))",
      "if skipExportGlyphs and instantiator is not None:\n    skipExportGlyphs = instantiator.glyph_names & set(skipExportGlyphs)\nif skipExportGlyphs:\n    from ufo2ft.filters.skipExportGlyphs import SkipExportGlyphsIFilter\n    self._run(SkipExportGlyphsIFilter(skipExportGlyphs))", rule="R13.1"),
    M("include narrowed to the direct references before it reaches the pen (seeded C13j)", "ufo2ft/util.py", "decomposeCompositeGlyph",
      "if len(glyph.components) == 0:\n    return", "if len(glyph.components) == 0:\n    return\nif include is not None:\n    include = {c.baseGlyph for c in glyph.components if c.baseGlyph in include}", rule="R13.9"),
    M("default master's lib copied over the designspace's skip list (seeded C13g)", "ufo2ft/instantiator.py", "Instantiator.generate_instance",
      "font.lib['designspace.location'] = [loc for loc in location.items()]", "font.lib['designspace.location'] = [loc for loc in location.items()]\nfont.lib.update(copy.deepcopy(self.copy_lib))", rule="R13.8"),
    M("sparse-layer UFOs do not contribute to the skip list (seeded C13f)", "ufo2ft/_compilers/baseCompiler.py", "BaseCompiler.preprocess",
      "self.skipExportGlyphs.update(ufo.lib.get('public.skipExportGlyphs', []))", "if ufo.layers.defaultLayer is not None and len(ufo) > 0:\n    self.skipExportGlyphs.update(ufo.lib.get('public.skipExportGlyphs', []))", rule="R13.3"),
    M("scripts guessed from skipped glyphs too (mutation scan k=246)", "ufo2ft/featureWriters/baseFeatureWriter.py", "BaseFeatureWriter.guessFontScripts",
      "glyph.name not in glyphSet or glyph.unicodes is None", "glyph.name not in glyphSet and glyph.unicodes is None", rule="R13.4"),
    M("marks of the filtering set not intersected with the glyph set (kern writer 1)", "ufo2ft/featureWriters/kernFeatureWriter.py", "KernFeatureWriter._makeKerningLookup",
      "set(self.context.gdefClasses.mark or []) & set(self.context.glyphSet.keys())", "set(self.context.gdefClasses.mark or [])", rule="R13.7"),
    M("filtering-set decision on another list than its members", "ufo2ft/featureWriters/kernFeatureWriter.py", "KernFeatureWriter._makeKerningLookup",
      "{className: spacing}", "{className: [m for m in marks if self.context.font[m].width]}", rule="R13.7"),
    M("already pruned spacing marks filtered once more", "ufo2ft/featureWriters/kernFeatureWriter.py", "KernFeatureWriter._makeKerningLookup",
      "{className: spacing}", "{className: [m for m in spacing if m in self.context.glyphSet]}", kind="equiv"),
    M("marks of the filtering set not intersected with the glyph set", "ufo2ft/featureWriters/kernFeatureWriter2.py", "make_kerning_lookup",
      "set(context.gdefClasses.mark or []) & set(context.glyphSet.keys())", "set(context.gdefClasses.mark or [])", rule="R13.7"),
    M("static pre-processor drops the skip list", "ufo2ft/preProcessor.py", "BasePreProcessor.__init__",
      "_GlyphSet.from_layer(ufo, layerName, copy=not inplace, skipExportGlyphs=skipExportGlyphs)",
      "_GlyphSet.from_layer(ufo, layerName, copy=not inplace)", rule="R13.1"),
    M("from_layer filters a throw-away copy", "ufo2ft/util.py", "_GlyphSet.from_layer",
      "SkipExportGlyphsFilter(skipExportGlyphs)(font, self)", "SkipExportGlyphsFilter(skipExportGlyphs)(font, dict(self))", rule="R13.1"),
    M("interpolatable: custom filters loaded and default filters built before the skip stage", "ufo2ft/preProcessor.py", "BaseInterpolatablePreProcessor.__init__",
      "if skipExportGlyphs:\n    from ufo2ft.filters.skipExportGlyphs import SkipExportGlyphsIFilter\n    self._run(SkipExportGlyphsIFilter(skipExportGlyphs))\nself.defaultFilters = self.initDefaultFilters(**kwargs)",
      "self.defaultFilters = self.initDefaultFilters(**kwargs)\nif skipExportGlyphs:\n    from ufo2ft.filters.skipExportGlyphs import SkipExportGlyphsIFilter\n    self._run(SkipExportGlyphsIFilter(skipExportGlyphs))",
      rule="R13.1"),
    M("TTF interpolatable pre-processor forgets to pass the skip list", "ufo2ft/preProcessor.py", "TTFInterpolatablePreProcessor.__init__",
      "super().__init__(ufos, inplace=inplace, layerNames=layerNames, skipExportGlyphs=skipExportGlyphs, filters=filters, instantiator=instantiator, **kwargs)",
      "super().__init__(ufos, inplace=inplace, layerNames=layerNames, filters=filters, instantiator=instantiator, **kwargs)", rule="R13.1"),
    M("skip filter decomposes nested components too", "ufo2ft/filters/skipExportGlyphs.py", "SkipExportGlyphsFilter.filter",
      "decomposeCompositeGlyph(glyph, self.context.glyphSet, decomposeNested=False, include=self.options.skipExportGlyphs)",
      "decomposeCompositeGlyph(glyph, self.context.glyphSet, include=self.options.skipExportGlyphs)", rule="R13.2"),
    M("interpolatable skip filter decomposes every component", "ufo2ft/filters/skipExportGlyphs.py", "SkipExportGlyphsIFilter.filter",
      "decomposeCompositeGlyph(glyph, interpolatedLayer or glyphSet, decomposeNested=False, include=self.options.skipExportGlyphs)",
      "decomposeCompositeGlyph(glyph, interpolatedLayer or glyphSet, decomposeNested=False)", rule="R13.2"),
    M("removed glyphs not added to modified", "ufo2ft/filters/skipExportGlyphs.py", "SkipExportGlyphsFilter.__call__",
      "del glyphSet[glyphName]\nmodified.add(glyphName)", "del glyphSet[glyphName]", rule="R13.2"),
    M("removed glyphs not added to modified (interpolatable)", "ufo2ft/filters/skipExportGlyphs.py", "SkipExportGlyphsIFilter.__call__",
      "del glyphSet[glyphName]\nmodified.add(glyphName)", "del glyphSet[glyphName]", rule="R13.2"),
    M("designspace entry points overwrite the argument", "ufo2ft/_compilers/baseCompiler.py", "BaseInterpolatableCompiler._pre_compile_designspace",
      "if self.skipExportGlyphs is None:\n    self.skipExportGlyphs = designSpaceDoc.lib.get('public.skipExportGlyphs', [])",
      "self.skipExportGlyphs = designSpaceDoc.lib.get('public.skipExportGlyphs', [])", rule="R13.3"),
    M("static compile always reads the lib", "ufo2ft/_compilers/baseCompiler.py", "BaseCompiler.preprocess",
      "if self.skipExportGlyphs is None:\n    if isinstance(ufo_or_ufos, (list, tuple)):\n        self.skipExportGlyphs = set()\n        for ufo in ufo_or_ufos:\n            self.skipExportGlyphs.update(ufo.lib.get('public.skipExportGlyphs', []))\n    else:\n        self.skipExportGlyphs = ufo_or_ufos.lib.get('public.skipExportGlyphs', [])",
      "if isinstance(ufo_or_ufos, (list, tuple)):\n    self.skipExportGlyphs = set()\n    for ufo in ufo_or_ufos:\n        self.skipExportGlyphs.update(ufo.lib.get('public.skipExportGlyphs', []))\nelse:\n    self.skipExportGlyphs = ufo_or_ufos.lib.get('public.skipExportGlyphs', [])",
      rule="R13.3"),
    M("kerning groups keep skipped members", "ufo2ft/featureWriters/kernFeatureWriter.py", "KernFeatureWriter.getKerningGroups",
      "{g for g in members if g in allGlyphs}", "set(members)", rule="R13.4"),
    M("kerning groups (v2) filtered against the font", "ufo2ft/featureWriters/kernFeatureWriter2.py", "get_kerning_groups",
      "allGlyphs = context.glyphSet", "allGlyphs = context.font", rule="R13.4"),
    M("second side of a pair not checked against the glyph set", "ufo2ft/featureWriters/kernFeatureWriter.py", "KernFeatureWriter.getKerningPairs",
      "if not secondIsClass and side2 not in glyphSet:\n    continue", "pass", rule="R13.4"),
    M("variable pairs (v2): glyph check uses 'and' across sides", "ufo2ft/featureWriters/kernFeatureWriter2.py", "get_variable_kerning_pairs",
      "if not firstIsClass and side1 not in glyphSet:\n    continue\nif not secondIsClass and side2 not in glyphSet:\n    continue",
      "if not firstIsClass and side1 not in glyphSet and (not secondIsClass) and (side2 not in glyphSet):\n    continue", rule="R13.4"),
    M("GDEF classes no longer restricted to exported glyphs", "ufo2ft/featureWriters/gdefFeatureWriter.py", "GdefFeatureWriter._sortedGlyphClass",
      "sorted((n for n in self.context.orderedGlyphSet if n in glyphNames))", "sorted(glyphNames)", rule="R13.4"),
    M("writers run without the compiler", "ufo2ft/featureCompiler.py", "FeatureCompiler.setupFeatures",
      "writer.write(self.ufo, featureFile, compiler=self)", "writer.write(self.ufo, featureFile)", rule="R13.4"),
    M("interpolatable skip filter only collects locations of direct references (cf. seeded/C13a)", "ufo2ft/filters/base.py", "BaseIFilter.locationsFromComponentGlyphs",
      "locations |= self.glyphSourceLocations(baseGlyph)", "locations |= self.glyphSourceLocations(baseGlyph)\nif include is not None:\n    continue", rule="R13.5"),
    M("composite interpolated after the references were inlined", "ufo2ft/filters/skipExportGlyphs.py", "SkipExportGlyphsIFilter.filter",
      "self.ensureCompositeDefinedAtComponentLocations(glyphName, include=self.options.skipExportGlyphs)", "pass", rule="R13.5"),
    # equivalents
    M("pair guard written as a single condition", "ufo2ft/featureWriters/kernFeatureWriter.py", "KernFeatureWriter.getKerningPairs",
      "if not firstIsClass and side1 not in glyphSet:\n    continue\nif not secondIsClass and side2 not in glyphSet:\n    continue",
      "if not (firstIsClass or side1 in glyphSet) or not (secondIsClass or side2 in glyphSet):\n    continue", kind="equiv"),
    M("skip filter passes keywords in another order", "ufo2ft/filters/skipExportGlyphs.py", "SkipExportGlyphsFilter.filter",
      "decomposeCompositeGlyph(glyph, self.context.glyphSet, decomposeNested=False, include=self.options.skipExportGlyphs)",
      "decomposeCompositeGlyph(glyph, self.context.glyphSet, include=self.options.skipExportGlyphs, decomposeNested=False)", kind="equiv"),
]
