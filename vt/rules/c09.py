"""C09 - interpolatable compilation keeps compatible masters compatible (structural clauses)."""

from __future__ import annotations

import ast
from typing import Dict, List, Optional, Set, Tuple

from ..core import astutil as A
from ..core.index import AnalysisError, ClassInfo, FuncInfo
from ..selftest import M
from .common import branch_values, may_conds, atoms_of, is_early_exit_guard, BASE_FILTER, BASE_IFILTER, T, attr_stores, calls_named, conds, every_origin, facts, need, subscript_stores, where
from . import c12, c13

PRE = "ufo2ft.preProcessor"
TTFI = f"{PRE}.TTFInterpolatablePreProcessor"
OTFI = f"{PRE}.OTFInterpolatablePreProcessor"
BASEI = f"{PRE}.BaseInterpolatablePreProcessor"

# filters without an interpolatable sibling: reviewed one by one
REVIEWED_NO_IFILTER = {
    "CubicToQuadraticFilter": "per-master curve conversion is NOT compatibility-safe; never used on the interpolatable paths (R09.1 checks fonts_to_quadratic over all masters instead)",
    "RemoveOverlapsFilter": "NOT compatibility-safe; the interpolatable pre-processors never add it (R09.1)",
    "SortContoursFilter": "NOT compatibility-safe in general; custom filter only, documented caveat in the pre-processor docstring",
    "ReverseContourDirectionFilter": "a pure per-glyph reversal: the same operation on each master keeps point structure equal",
    "TransformationsFilter": "the same affine map on each master (options must be equal for merging, R09.3) keeps point structure",
    "DottedCircleFilter": "adds / edits one glyph from font-level data; custom filter only",
    "ExplodeColorLayerGlyphsFilter": "copies whole layer glyphs per master from font.lib data; structure follows the sources",
}
# built-in steps of the interpolatable TTF pipeline that go through a plain (non-I) filter
SAFE_PER_MASTER = {"ReverseContourDirectionFilter"}
# per-master filters the interpolatable pre-processors add themselves (through a helper), reviewed
REVIEWED_DEFAULT_PER_MASTER = {"ExplodeColorLayerGlyphsFilter": "copies whole colour-layer glyphs of each master under names derived from font-level data: the point structure of what it adds follows the sources"}


def filter_classes(prog) -> List[ClassInfo]:
    return [c for c in prog.ix.subclasses(BASE_FILTER) if c.module.name.startswith("ufo2ft.filters")]


def run(prog, chk):
    chk.decided += [
        "TTF interpolatable pipeline takes its decisions jointly: the mixed-glyph set is computed over all glyph sets, extended by the 2x2 mismatch check over all layers, applied through one interpolatable filter; curves are converted by one fonts_to_quadratic call over all glyph sets with per-master errors; built-in steps use I-filters (or reviewed per-glyph-independent filters) (R09.1)",
        "every shipped filter has an interpolatable sibling (discovered by the package's own naming convention) or is on the reviewed list; sibling pairs agree on their option tables (R09.2)",
        "filters of different masters are merged into one interpolatable filter only when class, options and pre agree; otherwise each runs on its own master (R09.3)",
        "master TTFs keep float coordinates and implied on-curve points (R09.4)",
        "sparse masters compile a subset of the compiler's tables, chosen by layerName; placeholders for missing component bases only in non-default masters (R09.5)",
        "every interpolatable filter applies its operation to every master that has the glyph: one loop over all glyph sets without early exit (R09.6)",
        "composites get a master wherever a decomposed component has one: location closure is transitive (R09.7, shared with C13)",
        "the instantiator's cached per-glyph models are dropped whenever a step changed the glyph sets: unconditional clear in replace_source_layers, refresh under every step's 'modified' verdict (R09.8)",
        "interpolatable OTF masters are compiled with CFFOptimization.NONE whatever the compiler's own option says: no per-master charstring specialisation (R09.9, shared with C12)",
        "per-run accumulators of an interpolatable filter are per master inside the loop over the glyph sets, or reviewed as describing all masters at once (R09.10, shared with C02 / C15)",
    ]
    chk.decided += ["a composite is interpolated exactly into the masters whose location its components need and it lacks (needLocations - haveLocations): a sparse master never receives glyphs "
                    "that no component reference ties to its layer (R09.11)"]
    chk.decided += ["the 'this is the default source' flag handed to the outline compiler is 'the source's index equals the instantiator's default source index': every other master, sparse layer or "
                    "stand-alone UFO alike, gets placeholder glyphs for component bases it lacks, so composites keep their components in every master (R09.12)"]
    chk.decided += ["the decomposition helper draws every component it removes, whatever its transformation: what a master contributes does not depend on that master's own transform values (R09.13 = R15.1b)"]
    chk.decided += ["the per-run memo of component locations holds, for a base glyph, the answer of the recursion for that glyph: a memo hit contributes what a miss contributes (R09.14 = R13.11)"]
    chk.not_decided += ["that cu2qu yields equal segment counts for all masters (fontTools)", "point compatibility of the output itself", "custom filters supplied by the caller"]
    chk.guard(r091, prog, chk)
    chk.guard(r092, prog, chk)
    chk.guard(r093, prog, chk)
    chk.guard(r094, prog, chk)
    chk.guard(r095, prog, chk)
    chk.guard(r096, prog, chk)
    chk.guard(r098, prog, chk)
    chk.guard(c13.r135, prog, chk, "R09.7")
    chk.guard(c12.masters_force_none, prog, chk, "R09.9")
    chk.guard(check_master_isolation, prog, chk, "R09.10")
    chk.guard(r0911, prog, chk)
    chk.guard(r0912, prog, chk)
    from .c15 import r151b
    chk.guard(r151b, prog, chk, "R09.13")
    chk.guard(check_location_memo_complete, prog, chk, "R09.14")
    from .c08 import check_memo_decorators
    chk.guard(lambda prog_, chk_: (check_memo_decorators(prog_, chk_, "R09.8", only_modules=("ufo2ft.instantiator", "ufo2ft.filters", "ufo2ft.preProcessor")), None)[1], prog, chk)


def _is_all_glyphsets(e: ast.AST) -> bool:
    return T(e) == "self.glyphSets"


# ----------------------------------------------------------------------------- R09.1
def r091(prog, chk):
    ix = prog.ix
    ci = ix.get_class(TTFI)
    proc = ci.methods["process"]
    cfg = prog.cfg(proc)
    # (a) the mixed-glyph set is computed over all glyph sets
    nd = [s for s in A.stmts_of(proc.node) if isinstance(s, ast.Assign) and isinstance(s.value, ast.SetComp)]
    need(len(nd) == 1, f"cannot interpret {proc.short}: needs_decomposition")
    sc = nd[0].value
    ndname = nd[0].targets[0].id
    ok = _is_all_glyphsets(sc.generators[0].iter) and len(sc.generators) == 2 and not sc.generators[0].ifs
    cond = sc.generators[-1].ifs[0] if sc.generators[-1].ifs else None
    okc = cond is not None and isinstance(cond, ast.BoolOp) and isinstance(cond.op, ast.And) and any("len(" in T(v) for v in cond.values) and any(".components" in T(v) for v in cond.values)
    chk.ob("R09.1", f"{proc.short}|mixed glyphs collected from every glyph set", ok and okc, where(proc, nd[0]), detail=T(sc, 120),
           message=f"{proc.short}: the set of glyphs to decompose is not computed over all masters (a glyph mixed in one master only would be decomposed there alone)")
    # (b) 2x2 mismatch check extends the same set before it is used
    chkc = [c for c in calls_named(proc, "check_for_nonmatching_components")]
    runs = [c for c in A.body_nodes(proc.node) if isinstance(c, ast.Call) and T(c.func) == "self._run" and c.args and isinstance(c.args[0], ast.Call)
            and "Decompose" in A.callee_name(c.args[0])]
    need(len(runs) == 1, f"cannot interpret {proc.short}: decomposition step")
    dec = [runs[0].args[0]]
    ok = len(chkc) == 1 and chkc[0].args and T(chkc[0].args[0]) == ndname and cfg.dominates(cfg.node_of(chkc[0]), cfg.node_of(dec[0]))
    chk.ob("R09.1", f"{proc.short}|2x2 mismatch check extends the set before decomposition", ok, where(proc, dec[0]), detail="self.check_for_nonmatching_components(needs_decomposition)",
           message=f"{proc.short}: components whose 2x2 differs across masters are not added to the decomposition set before it is applied")
    inc = A.kwarg(dec[0], "include")
    ts, how = prog.resolve_callee(proc, dec[0].func)
    dcls = [t for t in ts if isinstance(t, ClassInfo)]
    ok = inc is not None and T(inc) == ndname and len(dcls) == 1 and ix.is_subclass(dcls[0], BASE_IFILTER)
    chk.ob("R09.1", f"{proc.short}|one interpolatable decomposition over the joint set", ok, where(proc, dec[0]), detail=T(runs[0], 80),
           message=f"{proc.short}: the joint decomposition set is not applied through one interpolatable filter run (`{T(runs[0], 70)}`)")
    # (c) curve conversion: one call over all glyph sets
    f2q = [c for c in A.body_nodes(proc.node) if isinstance(c, ast.Call) and A.callee_name(c) == "fonts_to_quadratic"]
    ok = len(f2q) == 1 and f2q[0].args and _is_all_glyphsets(f2q[0].args[0]) and not any(isinstance(a, (ast.For, ast.While)) for a in ix.ancestors(f2q[0]))
    chk.ob("R09.1", f"{proc.short}|curves converted by one fonts_to_quadratic call over all masters", ok, where(proc, f2q[0]) if f2q else where(proc), detail="fonts_to_quadratic(self.glyphSets, ...)",
           message=f"{proc.short}: cubic curves are not converted jointly for all masters (segment counts can differ between masters)")
    single = [c for c in A.body_nodes(proc.node) if isinstance(c, ast.Call) and A.callee_name(c) in ("font_to_quadratic", "glyphs_to_quadratic", "CubicToQuadraticFilter", "RemoveOverlapsFilter", "SortContoursFilter")]
    init = ci.methods.get("initDefaultFilters")
    if init is not None:
        single += [c for c in A.body_nodes(init.node) if isinstance(c, ast.Call) and A.callee_name(c) in ("CubicToQuadraticFilter", "RemoveOverlapsFilter", "SortContoursFilter")]
    chk.ob("R09.1", f"{ci.name}|no per-master curve conversion / overlap removal / contour sorting", not single, where(proc), detail="none of font_to_quadratic, CubicToQuadraticFilter, RemoveOverlapsFilter, SortContoursFilter",
           message=f"{ci.name} runs `{T(single[0], 50) if single else ''}` master by master: the result depends on each master's own shapes")
    oci = ix.get_class(OTFI)
    for m in oci.methods.values():
        bad = [c for c in A.body_nodes(m.node) if isinstance(c, ast.Call) and A.callee_name(c) in ("RemoveOverlapsFilter", "CubicToQuadraticFilter", "SortContoursFilter")]
        chk.ob("R09.1", f"{m.short}|no per-master overlap removal / sorting", not bad, where(m), detail="interpolatable CFF masters keep overlaps", nontrivial=False,
               message=f"{m.short} adds `{T(bad[0], 50) if bad else ''}`: outlines can become incompatible")
    # (d) every built-in self._run(<Filter>(...)) uses an I-filter or a reviewed per-glyph-independent filter
    n = 0
    for cls_q in (BASEI, TTFI, OTFI):
        c_ = ix.get_class(cls_q)
        for m in c_.methods.values():
            if m.cls is not c_:
                continue
            for c in [c for c in A.body_nodes(m.node) if isinstance(c, ast.Call) and T(c.func) == "self._run" and c.args and isinstance(c.args[0], ast.Call)]:
                ts, how = prog.resolve_callee(m, c.args[0].func)
                fcls = [t for t in ts if isinstance(t, ClassInfo)]
                if not fcls:
                    continue
                n += 1
                f = fcls[0]
                ok = ix.is_subclass(f, BASE_IFILTER) or f.name in SAFE_PER_MASTER
                chk.ob("R09.1", f"{m.short}|self._run({f.name}(...))", ok, where(m, c), detail="interpolatable filter" if ix.is_subclass(f, BASE_IFILTER) else f"reviewed: {REVIEWED_NO_IFILTER.get(f.name, '')}",
                       message=f"{m.short} runs the per-master filter {f.name} as a built-in step of the interpolatable pipeline")
            # the filter list can also be filled by a module-level helper it is handed to
            scopes = [m]
            for c in A.body_nodes(m.node):
                if isinstance(c, ast.Call) and isinstance(c.func, ast.Name):
                    try:
                        ts_, how_ = prog.resolve_callee(m, c.func)
                    except Exception:
                        continue
                    scopes += [t for t in ts_ if isinstance(t, FuncInfo) and t.cls is None and t.module is m.module and not isinstance(t.node, ast.Lambda)] if how_ == "exact" else []
            for scope, c in [(sc_, c) for sc_ in scopes for c in A.body_nodes(sc_.node) if isinstance(c, ast.Call) and isinstance(c.func, ast.Attribute) and c.func.attr == "append" and c.args and isinstance(c.args[0], ast.Call)]:
                ts, how = prog.resolve_callee(scope, c.args[0].func)
                fcls = [t for t in ts if isinstance(t, ClassInfo) and ix.is_subclass(t, BASE_FILTER)]
                for f in fcls:
                    n += 1
                    ok = ix.is_subclass(f, BASE_IFILTER) or _sibling(prog, f) is not None or f.name in SAFE_PER_MASTER or f.name in REVIEWED_DEFAULT_PER_MASTER
                    if f.name in REVIEWED_DEFAULT_PER_MASTER:
                        chk.exempt("R09.1", f"{m.short}|default filter {f.name}", REVIEWED_DEFAULT_PER_MASTER[f.name])
                    chk.ob("R09.1", f"{m.short}|default filter {f.name}" + ("" if scope is m else f" (via {scope.short})"), ok, where(scope, c), detail="has an interpolatable sibling (merged by _run)",
                           message=f"{m.short} adds the per-master filter {f.name} (no interpolatable sibling) to the default filters of an interpolatable pipeline")
    check_nonmatching_components(prog, chk, "R09.1")
    chk.minimum("R09.1", 10)


def check_nonmatching_components(prog, chk, rule):
    """(shared with C10 as R10.9) composites whose component 2x2 differs between masters cannot vary in gvar (only offsets
    do) and must be decomposed: the comparison runs over all masters for every composite."""
    ix = prog.ix
    ci = ix.get_class(f"{PRE}.TTFInterpolatablePreProcessor")
    # (e) check_for_nonmatching_components compares the 2x2 over all layers
    cn = ci.methods["check_for_nonmatching_components"]
    lay = [s for s in A.stmts_of(cn.node) if isinstance(s, ast.Assign) and isinstance(s.value, ast.ListComp) and _is_all_glyphsets(s.value.generators[0].iter)]
    ok = len(lay) == 1
    tr = [s for s in A.stmts_of(cn.node) if isinstance(s, ast.Assign) and isinstance(s.value, ast.ListComp) and isinstance(s.value.elt, ast.Subscript) and isinstance(s.value.elt.slice, ast.Slice)]
    ok = ok and len(tr) == 1
    if ok:
        sl = tr[0].value.elt.slice
        ok = (sl.lower is None or A.is_const(sl.lower, 0)) and A.is_const(sl.upper, 4) and T(tr[0].value.generators[0].iter) == lay[0].targets[0].id and "transformation" in T(tr[0].value.elt.value)
    adds = [c for c in calls_named(cn, "add") if T(c.func.value) == cn.params()[1]]
    okadd = len(adds) == 1 and any(isinstance(x, ast.Compare) and isinstance(x.ops[0], ast.NotEq) for g in conds(prog, cn, adds[0]) for x in ast.walk(g.test))
    chk.ob(rule, f"{cn.short}|2x2 (transformation[0:4]) compared across all layers; mismatch adds the glyph", ok and okadd, where(cn), detail="transforms over all layers; any(transform != transforms[0])",
           message=f"{cn.short}: the component 2x2 is no longer compared across all masters (or a mismatch no longer forces decomposition)")
    # the only glyphs the check passes over: already marked ones and glyphs without components in any master
    gl = [n for n in cn.node.body if isinstance(n, ast.For)]
    need(len(gl) == 1, f"cannot interpret {cn.short}: glyph loop")
    skips = [n for n in ast.walk(gl[0]) if isinstance(n, ast.Continue) and not any(isinstance(a, ast.For) and a is not gl[0] for a in ix.ancestors(n) if any(b is gl[0] for b in ix.ancestors(a)))]
    bad = []
    for sk in skips:
        fs = facts(prog, cn, sk)
        ok_sk = any(o == "in" and r == cn.params()[1] for o, l, r in fs) or any(o == "falsy" and l.startswith("any(") for o, l, r in fs)
        if not ok_sk:
            bad.append(sk)
    chk.ob(rule, f"{cn.short}|no composite is passed over on the evidence of one master", not bad, where(cn, bad[0]) if bad else where(cn), detail=f"{len(skips)} skip(s): already marked / no components anywhere",
           message=f"{cn.short}: a glyph can be skipped under `{T(ix.parent(bad[0]).test, 60) if bad and isinstance(ix.parent(bad[0]), ast.If) else ''}` without comparing its component "
                   f"transformations across all masters: a composite that is plain in one master and scaled / flipped in another stays a composite, varLib drops its variation data and "
                   f"the variable font shows the default shape at every location")


def _sibling(prog, f: ClassInfo) -> Optional[ClassInfo]:
    """The interpolatable sibling as BaseFilter.getInterpolatableFilterClass finds it."""
    name = f.name[:-6] if f.name.endswith("Filter") else f.name
    return f.module.classes.get(f"{name}IFilter")


# ----------------------------------------------------------------------------- R09.2
def r092(prog, chk):
    ix = prog.ix
    g = ix.get_method(BASE_FILTER, "getInterpolatableFilterClass", own=True)
    txt = T(g.node, 2000)
    ok = "endswith('Filter')" in txt and "IFilter" in txt and "sys.modules[cls.__module__]" in txt
    chk.ob("R09.2", f"{g.short}|sibling convention: same module, <Name>IFilter", ok, where(g), detail="getattr(module, f'{name}IFilter', None)", nontrivial=False,
           message="the sibling discovery convention changed; R09.2's table is out of date")
    overrides = [m for m in ix.overriders(ix.get_class(BASE_FILTER), "getInterpolatableFilterClass") if m.cls.qname not in (BASE_FILTER, BASE_IFILTER)]
    chk.ob("R09.2", "no filter overrides the sibling discovery", not overrides, where(g), detail="only BaseFilter / BaseIFilter define it", nontrivial=False,
           message=f"{[m.short for m in overrides]} override getInterpolatableFilterClass")
    n = 0
    for f in filter_classes(prog):
        if f.qname in (BASE_FILTER, BASE_IFILTER) or ix.is_subclass(f, BASE_IFILTER):
            continue
        n += 1
        sib = _sibling(prog, f)
        if sib is None:
            ok = f.name in REVIEWED_NO_IFILTER
            if ok:
                chk.exempt("R09.2", f"{f.name}|no interpolatable sibling", REVIEWED_NO_IFILTER[f.name])
            chk.ob("R09.2", f"{f.name}|no interpolatable sibling", ok, f"{f.module.relpath}:{f.node.lineno}", detail=REVIEWED_NO_IFILTER.get(f.name, ""),
                   message=f"filter {f.name} has no interpolatable sibling and is not on the reviewed list: on interpolatable paths it runs master by master")
            continue
        ok = ix.is_subclass(sib, BASE_IFILTER)
        chk.ob("R09.2", f"{f.name}|sibling {sib.name} is an interpolatable filter", ok, f"{sib.module.relpath}:{sib.node.lineno}", detail="subclass of BaseIFilter",
               message=f"{sib.name} is not a BaseIFilter: _try_as_interpolatable_filter raises")
        for attr in ("_kwargs", "_args", "_pre"):
            a, b = ix.class_attr(f, attr), ix.class_attr(sib, attr)
            ta, tb = (T(a[1], 400) if a else None), (T(b[1], 400) if b else None)
            chk.ob("R09.2", f"{f.name} ~ {sib.name}|{attr}", ta == tb, f"{sib.module.relpath}:{sib.node.lineno}", detail=f"{attr} = {ta}",
                   message=f"{f.name} and {sib.name} disagree on {attr} ({ta} vs {tb}): options of the per-master filters are not accepted / mean something else when merged")
    for nm in REVIEWED_NO_IFILTER:
        if not any(f.name == nm for f in filter_classes(prog)):
            raise AnalysisError(f"reviewed filter {nm} no longer exists")
    chk.minimum("R09.2", 25)


# ----------------------------------------------------------------------------- R09.3
def r093(prog, chk):
    ix = prog.ix
    t = ix.get_method(BASEI, "_try_as_interpolatable_filter", own=True)
    alls = [c for c in A.body_nodes(t.node) if isinstance(c, ast.Call) and A.callee_name(c) == "all" and c.args and isinstance(c.args[0], ast.GeneratorExp)]
    need(len(alls) == 1, f"cannot interpret {t.short}")
    ge = alls[0].args[0]
    elt = ge.elt
    def part_text(v_):
        if isinstance(v_, ast.Compare) and len(v_.ops) == 1 and isinstance(v_.ops[0], ast.Eq):
            return " == ".join(sorted([T(v_.left), T(v_.comparators[0])]))
        return T(v_)
    parts = {part_text(v) for v in elt.values} if isinstance(elt, ast.BoolOp) and isinstance(elt.op, ast.And) else set()
    v = A.target_names(ge.generators[0].target)[0]
    ref = None
    for p_ in parts:
        if p_.startswith(f"type({v}) is "):
            ref = p_.split(" is ", 1)[1]
    first = [s for s in A.stmts_of(t.node) if isinstance(s, ast.Assign) and isinstance(s.value, ast.Call) and A.callee_name(s.value) == "next"]
    fname = first[0].targets[0].id if first else None
    ok = ref is not None and fname is not None and " == ".join(sorted([f"{v}.options", f"{fname}.options"])) in parts and " == ".join(sorted([f"{v}.pre", f"{fname}.pre"])) in parts
    chk.ob("R09.3", f"{t.short}|merge only when class, options and pre agree", ok, where(t, alls[0]), detail=T(elt, 120),
           message=f"{t.short}: filters of different masters are merged although their class / options / pre can differ")
    def disagree(g):
        return (isinstance(g.test, ast.UnaryOp) and isinstance(g.test.op, ast.Not) and g.test.operand is alls[0] and g.polarity is True) or (g.test is alls[0] and g.polarity is False)
    rets = [r for r in A.returns_of(t.node) if any(disagree(g) for g in conds(prog, t, r))]
    ok = len(rets) == 1 and A.is_const(rets[0].value, None)
    chk.ob("R09.3", f"{t.short}|disagreement returns None (per-master fallback)", ok, where(t), detail="if not all(...): return None",
           message=f"{t.short}: disagreement between the masters' filters does not fall back to per-master application")
    # every filter of the list takes part in the comparison (slice from 1, reference = first non-None)
    it = ge.generators[0].iter
    ok = isinstance(it, ast.Subscript) and isinstance(it.slice, ast.Slice) and A.is_const(it.slice.lower, 1) and it.slice.upper is None and T(it.value) == t.params()[0]
    chk.ob("R09.3", f"{t.short}|all other filters are compared", ok, where(t, alls[0]), detail=T(it), message=f"{t.short}: not every master's filter is compared with the reference")
    # the merged filter takes pre and options from the reference and the union of includes
    ctor = [r.value for r in A.returns_of(t.node) if isinstance(r.value, ast.Call) and isinstance(r.value.func, ast.Name) and prog.reaching(t, r.value.func.id, r.value.func)]
    ok = len(ctor) == 1 and T(A.kwarg(ctor[0], "pre")) == f"{fname}.pre" and any(k.arg is None and T(k.value) == f"{fname}.options.__dict__" for k in ctor[0].keywords) and A.kwarg(ctor[0], "include") is not None
    chk.ob("R09.3", f"{t.short}|merged filter built from the reference's pre and options", ok, where(t, ctor[0]) if ctor else where(t), detail=T(ctor[0], 100) if ctor else "",
           message=f"{t.short}: the interpolatable filter is not built from the agreed options")
    # _run: single I-filter -> interpolatable; else try to merge; else per master over zip_strict of all three lists
    run_ = ix.get_method(BASEI, "_run", own=True)
    loops = [n for n in A.body_nodes(run_.node) if isinstance(n, ast.For) and isinstance(n.iter, ast.Call) and A.callee_name(n.iter) == "zip_strict"]
    ok = len(loops) == 1 and {T(a) for a in loops[0].iter.args} == {run_.params()[1].lstrip("*"), "self.ufos", "self.glyphSets"} or (len(loops) == 1 and {"self.ufos", "self.glyphSets"} <= {T(a) for a in loops[0].iter.args})
    chk.ob("R09.3", f"{run_.short}|fallback applies filter i to master i (zip_strict over filters, fonts, glyph sets)", ok, where(run_), detail=T(loops[0].iter) if loops else "",
           message=f"{run_.short}: the per-master fallback does not pair each filter with its own master")
    chk.minimum("R09.3", 5)


# ----------------------------------------------------------------------------- R09.4
def r094(prog, chk):
    ix = prog.ix
    co = ix.get_method("ufo2ft._compilers.interpolatableTTFCompiler.InterpolatableTTFCompiler", "compileOutlines", own=True)
    cfg = prog.cfg(co)
    ctor = [c for c in A.body_nodes(co.node) if isinstance(c, ast.Call) and T(c.func) == "self.outlineCompilerClass"]
    need(len(ctor) == 1, f"cannot interpret {co.short}")
    for k in ("roundCoordinates", "dropImpliedOnCurves"):
        st = [(s, t, v) for s, t, v in subscript_stores(co) if isinstance(t.slice, ast.Constant) and t.slice.value == k]
        ok = len(st) == 1 and A.is_const(st[0][2], False) and not may_conds(prog, co, st[0][0]) and cfg.dominates(cfg.node_of(st[0][0]), cfg.node_of(ctor[0]))
        okk = any(kw.arg is None and T(kw.value) == T(st[0][1].value) for kw in ctor[0].keywords) if st else False
        chk.ob("R09.4", f"{co.short}|{k} = False on every path before the outline compiler is built", ok and okk, where(co, st[0][0]) if st else where(co), detail=f"kwargs['{k}'] = False",
               message=f"{co.short}: master TTFs are not built with {k}=False "
                       + ("(coordinates rounded per master: implied on-curve detection differs between masters)" if k == "roundCoordinates" else "(implied on-curve points dropped per master: point counts differ)"))
    oc = ix.get_class("ufo2ft.outlineCompiler.OutlineTTFCompiler")
    init = oc.methods["__init__"]
    for k in ("roundCoordinates", "dropImpliedOnCurves"):
        ok = k in init.params() and any(T(v) == k for s, t, v in attr_stores(init, k))
        chk.ob("R09.4", f"{init.short}|{k} stored", ok, where(init), detail=f"self.{k} = {k}", nontrivial=False, message=f"OutlineTTFCompiler ignores {k}")
    chk.minimum("R09.4", 4)


# ----------------------------------------------------------------------------- R09.5
def _frozenset_elts(prog, mi, name) -> Optional[Set[str]]:
    e = mi.constants.get(name)
    try:
        v = prog.ix.const_eval(mi, e)
        return set(v)
    except Exception:
        return None


def _tables_of(prog, cq: str) -> Set[str]:
    ci = prog.ix.get_class(cq)
    ca = prog.ix.class_attr(ci, "tables")
    v = prog.ix.const_eval(ca[0].module, ca[1], ca[0])
    return set(v)


def r095(prog, chk):
    ix = prog.ix
    cm = ix.get_module("ufo2ft.constants")
    ttf = _frozenset_elts(prog, cm, "SPARSE_TTF_MASTER_TABLES")
    otf = _frozenset_elts(prog, cm, "SPARSE_OTF_MASTER_TABLES")
    need(ttf is not None and otf is not None, "cannot evaluate the sparse table constants")
    tt = _tables_of(prog, "ufo2ft.outlineCompiler.OutlineTTFCompiler")
    ot = _tables_of(prog, "ufo2ft.outlineCompiler.OutlineOTFCompiler")
    chk.ob("R09.5", "SPARSE_TTF_MASTER_TABLES is a subset of OutlineTTFCompiler.tables and contains glyf/loca/hmtx/maxp/head", ttf <= tt and {"glyf", "loca", "hmtx", "maxp", "head"} <= ttf, "Lib/ufo2ft/constants.py",
           detail=str(sorted(ttf)), message=f"sparse TTF masters ask for tables the compiler does not build ({sorted(ttf - tt)}) or lack the outline / metrics tables varLib reads")
    chk.ob("R09.5", "SPARSE_OTF_MASTER_TABLES is a subset of OutlineOTFCompiler.tables (+'CFF ') and contains CFF/hmtx/maxp/head", otf <= (ot | {"CFF "}) and {"CFF ", "hmtx", "maxp", "head"} <= otf, "Lib/ufo2ft/constants.py",
           detail=str(sorted(otf)), message=f"sparse OTF masters ask for tables the compiler does not build ({sorted(otf - ot - {'CFF '})}) or lack the outline / metrics tables")
    for cq, const in (("ufo2ft._compilers.interpolatableTTFCompiler.InterpolatableTTFCompiler", "SPARSE_TTF_MASTER_TABLES"), ("ufo2ft._compilers.interpolatableOTFCompiler.InterpolatableOTFCompiler", "SPARSE_OTF_MASTER_TABLES")):
        co = ix.get_method(cq, "compileOutlines", own=True)
        st = [(s, t, v) for s, t, v in subscript_stores(co) if isinstance(t.slice, ast.Constant) and t.slice.value == "tables"]
        ok = len(st) == 1 and isinstance(st[0][2], ast.IfExp) and T(st[0][2].body) == const and A.is_const(st[0][2].orelse, None) and "layerName" in T(st[0][2].test)
        chk.ob("R09.5", f"{co.short}|sparse table set iff layerName", ok, where(co), detail=T(st[0][2]) if st else "",
               message=f"{co.short}: the table subset is not chosen by 'this source is a sparse layer'")
    mm = ix.get_method("ufo2ft.outlineCompiler.OutlineTTFCompiler", "makeMissingRequiredGlyphs", own=True)
    st = [(s, t, v) for s, t, v in subscript_stores(mm)]
    ok = len(st) == 1
    if ok:
        fs = facts(prog, mm, st[0][0])
        ok = any(o == "falsy" and l.endswith("compilingVFDefaultSource") for o, l, r in fs) and any(o == "notin" for o, l, r in fs)
        v = st[0][2]
        okv = isinstance(v, ast.Call) and T(A.kwarg(v, "width")) in ("65535", "0xFFFF") and T(A.kwarg(v, "height")) in ("65535", "0xFFFF")
        ok = ok and okv and T(st[0][1].slice) == T(v.args[0])
    chk.ob("R09.5", f"{mm.short}|empty placeholder (width/height 0xFFFF) only for missing component bases of non-default masters", ok, where(mm), detail=T(st[0][0], 100) if st else "",
           message=f"{mm.short}: placeholders for missing component bases are added in the default master, for present glyphs, or without the 'does not participate' sentinel")
    sup = [c for c in A.body_nodes(mm.node) if isinstance(c, ast.Call) and isinstance(c.func, ast.Attribute) and c.func.attr == "makeMissingRequiredGlyphs" and "super()" in T(c.func.value)]
    chk.ob("R09.5", f"{mm.short}|.notdef handled by the base class first", len(sup) == 1, where(mm), detail="super().makeMissingRequiredGlyphs(...)", nontrivial=False, message=f"{mm.short} no longer adds .notdef")
    nf = ix.get_func("ufo2ft.util:_notdefGlyphFallback")
    st = [(s, t, v) for s, t, v in attr_stores(nf, "width")] + [(s, t, v) for s, t, v in attr_stores(nf, "height")]
    ok = len(st) == 2 and all(T(v) in ("65535", "0xFFFF") for s, t, v in st)
    chk.ob("R09.5", f"{nf.short}|sparse .notdef is empty with the sentinel advance", ok, where(nf), detail="width = height = 0xFFFF",
           message=f"{nf.short}: the .notdef of sparse masters takes part in metrics variations")
    chk.minimum("R09.5", 7)


# ----------------------------------------------------------------------------- R09.6
def r096(prog, chk):
    ix = prog.ix
    n = 0
    for f in filter_classes(prog):
        if not ix.is_subclass(f, BASE_IFILTER) or f.qname == BASE_IFILTER:
            continue
        m = f.methods.get("filter")
        if m is None:
            continue
        n += 1
        loops = [l for l in A.body_nodes(m.node) if isinstance(l, ast.For) and "self.context.glyphSets" in T(l.iter)]
        ok = len(loops) == 1
        why = "one loop over self.context.glyphSets"
        if not loops:
            # a refinement that only adds a joint pre-condition and delegates to the parent's loop
            rets = [r for r in A.returns_of(m.node) if not A.is_const(r.value, False)]
            ok = bool(rets) and all(isinstance(r.value, ast.Call) and isinstance(r.value.func, ast.Attribute) and r.value.func.attr == "filter" and "super()" in T(r.value.func.value)
                                    and [T(a) for a in r.value.args] == m.params()[1:] for r in rets)
            why = "delegates to super().filter(glyphName, glyphs) with all masters"
        elif ok:
            lp = loops[0]
            early = [s for s in ast.walk(lp) if isinstance(s, (ast.Break, ast.Return))]
            # `continue` only for masters that do not have the glyph
            conts = [s for s in ast.walk(lp) if isinstance(s, ast.Continue)]
            def lacks_glyph_only(st):
                par = ix.parent(st)
                if not isinstance(par, ast.If) or st not in par.body:
                    return False
                ats = atoms_of(par.test, True)  # `not (g is not None)` is `g is None`
                return len(ats) == 1 and ((ats[0][0] == "is" and ats[0][2] == "None") or ats[0][0] == "notin")
            okc = all(lacks_glyph_only(s) for s in conts)
            # the operation itself is not applied under a per-master condition other than "this master has the glyph"
            for c_ in A.calls_in(lp):
                ts, how = prog.resolve_callee(m, c_.func)
                if any(isinstance(t_, FuncInfo) and t_.module is m.module and t_.cls is None for t_ in ts) or (isinstance(c_.func, ast.Attribute) and c_.func.attr in ("decomposeAndRemove", "removeComponent")):
                    extra = [g for g in may_conds(prog, m, c_) if g.kind in ("if", "boolop") and any(a is lp for a in ix.ancestors(g.loc))
                             and not (isinstance(g.test, ast.Compare) and len(g.test.ops) == 1 and isinstance(g.test.ops[0], (ast.Is, ast.IsNot, ast.In, ast.NotIn)))]
                    if extra:
                        okc = False
            ok = not early and okc
            why = "no break / return inside; masters are only skipped when they lack the glyph"
        chk.ob("R09.6", f"{m.short}|operation applied to every master that has the glyph", ok, where(m), detail=why,
               message=f"{m.short}: the interpolatable filter can stop before it has processed every master (masters end up with different structure)")
    call = ix.get_method(BASE_IFILTER, "__call__", own=True)
    lc = [x for x in A.body_nodes(call.node) if isinstance(x, ast.ListComp) and any("glyphSets" in T(g.iter) for g in x.generators)]
    ok = any(isinstance(x.elt, ast.Subscript) and x.generators[0].ifs and isinstance(x.generators[0].ifs[0], ast.Compare) and isinstance(x.generators[0].ifs[0].ops[0], ast.In) for x in lc)
    chk.ob("R09.6", f"{call.short}|same-named glyphs of all masters are zipped", ok, where(call), detail="[glyphSet[glyphName] for glyphSet in glyphSets if glyphName in glyphSet]",
           message=f"{call.short}: not every master's glyph of that name is handed to filter()")
    chk.minimum("R09.6", 5)


# ----------------------------------------------------------------------------- R09.8
def r098(prog, chk):
    """Glyphs interpolated on demand for sparse masters come from per-glyph variation
    models cached in the instantiator.  The cache is dropped whenever a step changed the
    glyph sets: replace_source_layers always clears it, _update_instantiator always
    calls it (when there is an instantiator), and every modifying step of the
    interpolatable pre-processors calls _update_instantiator under its 'modified' verdict."""
    ix = prog.ix
    rs = ix.get_method("ufo2ft.instantiator.Instantiator", "replace_source_layers", own=True)
    clears = [c for c in calls_named(rs, "clear") if T(c.func.value) == "self.glyph_mutators"]
    early = [r for r in A.returns_of(rs.node)]
    ok = len(clears) == 1 and not may_conds(prog, rs, clears[0]) and not early
    chk.ob("R09.8", f"{rs.short}|the cached glyph models are always dropped", ok, where(rs), detail="self.glyph_mutators.clear() on every path",
           message=f"{rs.short} can keep the cached per-glyph variation models (early return / conditional clear): glyphs interpolated for sparse masters after a later "
                   f"filter or the curve conversion are computed from masters as they were before that step")
    st = [n for n in A.body_nodes(rs.node) if isinstance(n, ast.Assign) and isinstance(n.targets[0], ast.Subscript) and T(n.targets[0].value) == "self.source_layers"]
    ok = len(st) == 1 and not may_conds(prog, rs, st[0])
    chk.ob("R09.8", f"{rs.short}|the source layers are always replaced", ok, where(rs), detail="self.source_layers[:] = [...]", nontrivial=False, message=f"{rs.short} does not always install the new layers")
    ui = ix.get_method(BASEI, "_update_instantiator", own=True)
    cs = [c for c in calls_named(ui, "replace_source_layers")]
    ok = len(cs) == 1 and T(cs[0].args[0]) == "self.glyphSets"
    if ok:
        g = [c_ for c_ in may_conds(prog, ui, cs[0])]
        ok = len(g) == 1 and T(g[0].test) == "self.instantiator is not None" and g[0].polarity is True
    chk.ob("R09.8", f"{ui.short}|always hands the current glyph sets to the instantiator when there is one", ok, where(ui), detail="if self.instantiator is not None: self.instantiator.replace_source_layers(self.glyphSets)",
           message=f"{ui.short} does not unconditionally refresh the instantiator with the current glyph sets")
    n = 0
    for cq, mname in ((BASEI, "_run_interpolatable"), (BASEI, "_run"), (TTFI, "process")):
        m = ix.get_method(cq, mname, own=True)
        ups = [c for c in calls_named(m, "_update_instantiator")]
        for c in ups:
            n += 1
            fs = facts(prog, m, c)
            truthy = [l for o, l, r in fs if o == "truthy"]
            # the verdict tested is the result of the step that ran just before
            okv = False
            for t_ in truthy:
                if "fonts_to_quadratic" in t_:
                    okv = True
                nm = [x for x in A.body_nodes(m.node) if isinstance(x, ast.Name) and x.id == t_]
                for x in nm[:1]:
                    for d in prog.reaching(m, x.id, c):
                        if d.value is not None and (isinstance(d.value, ast.Call) or d.kind == "augassign"):
                            okv = True
            chk.ob("R09.8", f"{m.short}|{A.keytext(m.node, c)}|refresh under the step's own 'modified' verdict", okv and len(may_conds(prog, m, c)) >= 1, where(m, c), detail=f"guards: {truthy}",
                   message=f"{m.short}: the instantiator is not refreshed exactly when the step reported modifications")
        chk.ob("R09.8", f"{m.short}|refreshes the instantiator after its modifying step", len(ups) >= 1, where(m), detail=f"{len(ups)} call(s)",
               message=f"{m.short} changes the glyph sets without refreshing the instantiator")
    init = ix.get_method(BASEI, "__init__", own=True)
    ups = [c for c in calls_named(init, "_update_instantiator")]
    chk.ob("R09.8", f"{init.short}|instantiator pointed at the working glyph sets before any filter runs", len(ups) == 1 and not [c_ for c_ in may_conds(prog, init, ups[0]) if not is_early_exit_guard(prog, init, c_)], where(init), detail="self._update_instantiator() right after the glyph sets are built",
           message=f"{init.short}: the instantiator is not switched to the pre-processor's glyph sets up front")
    chk.minimum("R09.8", 8)



# ----------------------------------------------------------------------------- R09.10
SHARED_ACROSS_MASTERS_OK = {
    "modified": "the set of changed glyph NAMES is one per run by design (a glyph changed in any master is reported once)",
    "componentLocations": "memo of source LOCATIONS per glyph name; it describes all masters at once and is not per-master data",
}


def _empty_container(v: ast.AST) -> bool:
    if isinstance(v, (ast.Dict, ast.List, ast.Set)):
        return not (v.keys if isinstance(v, ast.Dict) else v.elts)
    if isinstance(v, ast.Call) and A.callee_name(v) in ("set", "dict", "list", "OrderedDict", "defaultdict", "Counter", "deque") and not (v.args and A.callee_name(v) != "defaultdict"):
        return True
    return False


def check_master_isolation(prog, chk, rule):
    """Per-run accumulators of an interpolatable filter (containers created empty in set_context) are either one per
    master (indexed by the master loop's variables wherever the loop over the glyph sets uses them) or on the
    reviewed list: a name-keyed accumulator shared by all masters lets the first master decide for the others."""
    ix = prog.ix
    n = 0
    for ci in [c for c in ix.subclasses(BASE_IFILTER)] + [ix.get_class(BASE_IFILTER)]:
        accs = {}
        for k in ix.mro(ci) if hasattr(ix, "mro") else [ci]:
            sc = k.methods.get("set_context")
            if sc is None:
                continue
            for st in A.stmts_of(sc.node):
                if isinstance(st, ast.Assign) and isinstance(st.targets[0], ast.Attribute) and (_empty_container(st.value) or (
                        isinstance(st.value, ast.ListComp) and _empty_container(st.value.elt))):
                    base = st.targets[0].value
                    if T(base) == "self.context" or (isinstance(base, ast.Name) and any(
                            d.value is not None and ("set_context" in T(d.value) or T(d.value) == "self.context") for d in prog.reaching(sc, base.id, base))):
                        accs[st.targets[0].attr] = (k, st)
        for m in ci.methods.values():
            loops = [l for l in A.body_nodes(m.node) if isinstance(l, ast.For) and any(isinstance(x, ast.Attribute) and x.attr == "glyphSets" for x in ast.walk(l.iter))]
            for l in loops:
                lv = set(A.target_names(l.target))
                for node in A.walk_local(l):
                    name = None
                    if isinstance(node, ast.Attribute) and node.attr in accs and (T(node.value) == "self.context" or T(node.value).endswith("context") or T(node.value) == "ctx"):
                        name = node.attr
                    elif isinstance(node, ast.Name) and isinstance(node.ctx, ast.Load):
                        for d in prog.reaching(m, node.id, node):
                            v, how = d.element()
                            if how is None and isinstance(v, ast.Attribute) and v.attr in accs and T(v.value).endswith("context"):
                                name = v.attr
                    if name is None or name in SHARED_ACROSS_MASTERS_OK:
                        continue
                    par = ix.parent(node)
                    ok = isinstance(par, ast.Subscript) and par.value is node and any(isinstance(x, ast.Name) and x.id in lv for x in ast.walk(par.slice))
                    n += 1
                    chk.ob(rule, f"{m.short}|{A.keytext(m.node, node)}|per-run accumulator is per master inside the master loop", ok, where(m, node), detail=f"context.{name}",
                           message=f"{m.short}: the accumulator context.{name} (created empty in {accs[name][0].name}.set_context) is shared by all masters inside the loop over the glyph sets: "
                                   f"what the first master stores under a glyph name is reused for the others")
        # a new accumulator that is never indexed per master and is used by per-master helpers
    for name, why in SHARED_ACROSS_MASTERS_OK.items():
        chk.ob(rule, f"reviewed shared accumulator|{name}", True, "Lib/ufo2ft/filters/base.py", detail=why, nontrivial=False)
    chk.minimum(rule, 3)


# ----------------------------------------------------------------------------- R09.11
def r0911(prog, chk):
    ix = prog.ix
    en = ix.get_method(BASE_IFILTER, "ensureCompositeDefinedAtComponentLocations", own=True)
    gname = en.params()[1]
    sts = [(s_, t, v) for s_, t, v in subscript_stores(en) if T(t.slice) == gname]
    need(len(sts) == 1, f"cannot interpret {en.short}: insertion of the interpolated glyph")
    s_, t, v = sts[0]

    def origin_is(e, callee):
        ok, _ = every_origin(prog, en, e, lambda x, ff: isinstance(x, ast.Call) and A.callee_name(x) == callee and x.args and T(x.args[0]) == gname, allow_const=False)
        return ok

    def is_missing_set(e, depth=0):
        """needLocations - haveLocations, directly or through a local"""
        if isinstance(e, ast.BinOp) and isinstance(e.op, ast.Sub):
            return origin_is(e.left, "locationsFromComponentGlyphs") and origin_is(e.right, "glyphSourceLocations")
        if isinstance(e, ast.Call) and isinstance(e.func, ast.Attribute) and e.func.attr == "difference" and len(e.args) == 1:
            return origin_is(e.func.value, "locationsFromComponentGlyphs") and origin_is(e.args[0], "glyphSourceLocations")
        if isinstance(e, ast.Name) and depth < 3:
            ds = prog.reaching(en, e.id, e)
            return bool(ds) and all(d.kind == "assign" and d.value is not None and d.element()[1] is None and is_missing_set(d.element()[0], depth + 1) for d in ds)
        return False

    # membership facts about this master's location, read from the guards in force at the insertion
    ins, outs = [], []
    for c in conds(prog, en, s_):
        if c.polarity not in (True, False):
            continue
        for lit in ([c.test] if not (isinstance(c.test, ast.BoolOp) and isinstance(c.test.op, ast.And) and c.polarity is True) else c.test.values):
            p = A.compare_parts(lit)
            if not p or not isinstance(p[1], (ast.In, ast.NotIn)):
                continue
            pos = isinstance(p[1], ast.In) == (c.polarity is True)
            if not (isinstance(p[0], ast.Call) and A.callee_name(p[0]) == "hashableLocation" and p[0].args and T(p[0].args[0]).endswith(".location")):
                continue
            (ins if pos else outs).append(p[2])
    ok = any(is_missing_set(x) for x in ins) or (any(origin_is(x, "locationsFromComponentGlyphs") for x in ins) and any(origin_is(x, "glyphSourceLocations") for x in outs))
    # the layer the glyph comes from is the one whose location was tested, and it goes into the glyph set zipped with it
    src = v.value if isinstance(v, ast.Subscript) and T(v.slice) == gname else None
    okl = isinstance(src, ast.Name) and any(T(x).startswith(f"self.hashableLocation({src.id}.location)") for x in [A.compare_parts(c.test)[0] for c in conds(prog, en, s_)
                                                                                                                   if A.compare_parts(c.test)] )
    chk.ob("R09.11", f"{en.short}|the composite is interpolated only into masters at a location its components need and it lacks", ok and okl, where(en, s_),
           detail="if hashableLocation(layer.location) in (needLocations - haveLocations): glyphSet[name] = layer[name]",
           message=f"{en.short}: the interpolated composite is inserted into masters selected by another test than 'location in needLocations - haveLocations' "
                   f"({[T(x, 40) for x in ins]} / not in {[T(x, 40) for x in outs]}): sparse masters receive glyphs that no component reference ties to their layer, "
                   f"or a master that needs the glyph is left without it")
    chk.minimum("R09.11", 1)


# ----------------------------------------------------------------------------- R09.12
def r0912(prog, chk):
    ix = prog.ix
    f = ix.get_method("ufo2ft._compilers.baseCompiler.BaseInterpolatableCompiler", "compile", own=True)
    sts = [(s_, t, v) for s_, t, v in attr_stores(f, "compilingVFDefaultSource") if T(t.value) == "self"]
    need(len(sts) >= 1, f"cannot interpret {f.short}: compilingVFDefaultSource")
    for s_, t, v in sts:
        ok = isinstance(v, ast.Compare) and len(v.ops) == 1 and isinstance(v.ops[0], ast.Eq)
        if ok:
            sides = [v.left, v.comparators[0]]
            loops = [a for a in ix.ancestors(s_) if isinstance(a, ast.For)]
            idx = None
            if loops and isinstance(loops[0].iter, ast.Call) and A.callee_name(loops[0].iter) == "enumerate" and isinstance(loops[0].target, ast.Tuple) and isinstance(loops[0].target.elts[0], ast.Name):
                idx = loops[0].target.elts[0].id
            is_idx = [isinstance(x, ast.Name) and x.id == idx for x in sides]
            other = [x for x, i_ in zip(sides, is_idx) if not i_]
            okd = False
            if len(other) == 1 and any(is_idx):
                bv = branch_values(prog, f, other[0])
                real = [x for x, fs in bv if not A.is_const(x, None)]
                okd = bool(real) and all(T(x) == "self.instantiator.default_source_idx" for x in real)
            ok = okd and idx is not None
            # the enumeration runs over the sources in the order the instantiator indexes them
            if ok:
                it = loops[0].iter.args[0]
                ok = isinstance(it, ast.Call) and A.callee_name(it) in ("zip", "zip_strict") and it.args and T(it.args[0]) == f.params()[1]
        chk.ob("R09.12", f"{f.short}|compilingVFDefaultSource = (index of the source == instantiator.default_source_idx)", ok, where(f, s_), detail=T(v, 70),
               message=f"{f.short}: the default-source flag is `{T(v, 60)}`, not 'this source is the instantiator's default source': a non-default master that is not flagged as such "
                       f"(e.g. a sparse master given as its own UFO) gets no placeholder glyphs, its composites lose the components whose bases it lacks and the masters are no longer compatible")
    chk.minimum("R09.12", 1)


# ----------------------------------------------------------------------------- R09.14 (= R13.11)
def check_location_memo_complete(prog, chk, rule):
    """The per-run memo of locationsFromComponentGlyphs answers for a base glyph what the recursion answers: whatever is
    stored under a key is the result of the recursive call for that key, so a memo hit and a memo miss contribute the same
    locations (a memo holding less makes every composite after the first one miss the nested locations)."""
    ix = prog.ix
    col = ix.get_method(BASE_IFILTER, "locationsFromComponentGlyphs", own=True)

    def is_memo(e):
        return isinstance(e, ast.AST) and every_origin(prog, col, e, lambda x, ff: isinstance(x, ast.Attribute) and x.attr == "componentLocations", allow_const=False)[0]
    stores = []  # (node, key expr, value expr)
    for s_, t, v in subscript_stores(col):
        if is_memo(t.value) and v is not None:
            stores.append((s_, t.slice, v))
    for c in A.calls_in(col.node):
        if isinstance(c.func, ast.Attribute) and c.func.attr in ("setdefault", "update", "__setitem__") and is_memo(c.func.value):
            need(c.func.attr != "update" and len(c.args) == 2, f"cannot interpret {col.short}: `{T(c, 60)}`")
            stores.append((c, c.args[0], c.args[1]))
    need(stores, f"cannot interpret {col.short}: the memo is never filled")
    for node, k, v in stores:
        def full(x, ff):
            return isinstance(x, ast.Call) and isinstance(x.func, ast.Attribute) and x.func.attr == col.name and x.args and T(x.args[0]) == T(k)
        ok = every_origin(prog, col, v, full, allow_const=False)[0]
        chk.ob(rule, f"{col.short}|memo[{T(k, 20)}] holds the recursion's answer for that glyph", bool(ok), where(col, node), detail=T(node, 80),
               message=f"{col.short}: `{T(node, 80)}` memoises for `{T(k, 20)}` something else than {col.name}({T(k, 20)}, ...): a later composite that shares this base glyph takes the memoised "
                       f"value and misses the locations of the glyphs nested in it, so it is not interpolated into every master that the decomposition needs")
    chk.minimum(rule, 1)


MUTANTS = [
    M("location memo holds the base glyph's own locations only (seeded C09m)", "ufo2ft/filters/base.py", "BaseIFilter.locationsFromComponentGlyphs",
      "locations |= self.glyphSourceLocations(baseGlyph)\nlocations |= cache[baseGlyph] if baseGlyph in cache else cache.setdefault(baseGlyph, self.locationsFromComponentGlyphs(baseGlyph, include))",
      "if baseGlyph not in cache:\n    cache[baseGlyph] = self.glyphSourceLocations(baseGlyph)\n    locations |= self.locationsFromComponentGlyphs(baseGlyph, include)\nlocations |= cache[baseGlyph]", rule="R09.14"),
    M("location memo filled by subscript store", "ufo2ft/filters/base.py", "BaseIFilter.locationsFromComponentGlyphs",
      "locations |= cache[baseGlyph] if baseGlyph in cache else cache.setdefault(baseGlyph, self.locationsFromComponentGlyphs(baseGlyph, include))",
      "if baseGlyph not in cache:\n    cache[baseGlyph] = self.locationsFromComponentGlyphs(baseGlyph, include)\nlocations |= cache[baseGlyph]", kind="equiv"),
    M("overlap removal wired into the interpolatable CFF pre-processor through a shared helper (seeded C09l)", "ufo2ft/preProcessor.py", "OTFInterpolatablePreProcessor.initDefaultFilters",
      "filters.append(decompose)", "filters.append(decompose)\n_init_remove_overlaps_filter(filters)", rule="R09.1",
      also=(("ufo2ft/preProcessor.py", "", "<append-module>", "def _init_remove_overlaps_filter(filters):\n    from ufo2ft.filters.removeOverlaps import RemoveOverlapsFilter\n    filters.append(RemoveOverlapsFilter())\n"),)),
    M("2x2 mismatch check skipped when the first master's components are all plain (seeded C10k)", "ufo2ft/preProcessor.py", "TTFInterpolatablePreProcessor.check_for_nonmatching_components",
      "if not any(component_counts):\n    continue", "if not any(component_counts):\n    continue\nif all((c.transformation[0:4] == (1, 0, 0, 1) for c in layers[0].components)):\n    continue", rule="R09.1"),
    M("components with a singular transformation are dropped instead of drawn (seeded C09k)", "ufo2ft/util.py", "decomposeCompositeGlyph",
      "pen = DecomposingFilterPointPen(glyph.getPointPen(), glyphSet, reverseFlipped=reverseFlipped, include=include, decomposeNested=decomposeNested)",
      "pen = DecomposingFilterPointPen(glyph.getPointPen(), glyphSet, reverseFlipped=reverseFlipped, include=include, decomposeNested=decomposeNested)\nfor component in list(glyph.components):\n    if component.transformation[0] * component.transformation[3] == component.transformation[1] * component.transformation[2]:\n        glyph.removeComponent(component)", rule="R09.13"),
    M("default-source flag keyed off the layer name (seeded C09j)", "ufo2ft/_compilers/baseCompiler.py", "BaseInterpolatableCompiler.compile",
      "self.compilingVFDefaultSource = i == default_idx", "self.compilingVFDefaultSource = layerName is None", rule="R09.12"),
    M("composite interpolated into every master that lacks it (seeded C09i)", "ufo2ft/filters/base.py", "BaseIFilter.ensureCompositeDefinedAtComponentLocations",
      "self.hashableLocation(interpolatedLayer.location) in locationsToAdd", "self.hashableLocation(interpolatedLayer.location) not in haveLocations", rule="R09.11"),
    M("missing locations written as need-and-not-have", "ufo2ft/filters/base.py", "BaseIFilter.ensureCompositeDefinedAtComponentLocations",
      "self.hashableLocation(interpolatedLayer.location) in locationsToAdd",
      "self.hashableLocation(interpolatedLayer.location) in needLocations and self.hashableLocation(interpolatedLayer.location) not in haveLocations", kind="equiv"),
    M("mixed glyphs judged on the first master that has them (seeded C09g)", "ufo2ft/preProcessor.py", "TTFInterpolatablePreProcessor.process",
      "{gname for glyphSet in self.glyphSets for gname, glyph in glyphSet.items() if len(glyph) > 0 and glyph.components}",
      "{gname for gname, glyph in ChainMap(*self.glyphSets).items() if len(glyph) > 0 and glyph.components}", rule="R09.1"),
    M("interpolated layers built once per instantiator (seeded C09e)", "ufo2ft/instantiator.py", "Instantiator.interpolated_layers",
      "<decorate>", "functools.cached_property", rule="R09.8"),
    M("anchor propagation: one 'processed' set for all masters", "ufo2ft/filters/propagateAnchors.py", "PropagateAnchorsIFilter.filter",
      "self.context.processed[i]", "self.context.processed", rule="R09.10",
      also=(("ufo2ft/filters/propagateAnchors.py", "PropagateAnchorsIFilter.set_context", "ctx.processed = [set() for _ in range(len(ctx.glyphSets))]", "ctx.processed = set()"),)),
    M("name-keyed memo shared by all masters (seeded C15d shape)", "ufo2ft/filters/flattenComponents.py", "FlattenComponentsIFilter.filter",
      "_flattenGlyphComponents(glyph, interpolatedLayer or glyphSet)", "_flattenGlyphComponents(glyph, interpolatedLayer or glyphSet, self.context.flattened)", rule="R09.10",
      also=(("ufo2ft/filters/flattenComponents.py", "FlattenComponentsIFilter", "<add-method>", "def set_context(self, *args, **kwargs):\n    ctx = super().set_context(*args, **kwargs)\n    ctx.flattened = {}\n    return ctx\n"),)),
    M("OTF masters inherit the compiler's optimizeCFF (seeded C09d / C12d)", "ufo2ft/_compilers/interpolatableOTFCompiler.py", "InterpolatableOTFCompiler.compileOutlines",
      'kwargs["optimizeCFF"] = CFFOptimization.NONE', "pass", rule="R09.9"),
    M("instantiator keeps its cached glyph models when handed the same layer objects (seeded C09c)", "ufo2ft/instantiator.py", "Instantiator.replace_source_layers",
      "self.glyph_mutators.clear()", "if any((old is not new for (_, old), new in zip(self.source_layers, new_layers))):\n    self.glyph_mutators.clear()", rule="R09.8"),
    M("curve conversion does not refresh the instantiator", "ufo2ft/preProcessor.py", "TTFInterpolatablePreProcessor.process",
      "self._update_instantiator()", "pass", rule="R09.8"),
    M("interpolatable filters never refresh the instantiator", "ufo2ft/preProcessor.py", "BaseInterpolatablePreProcessor._run_interpolatable",
      "if modified:\n    self._update_instantiator()", "pass", rule="R09.8"),
    M("interpolatable flatten skips masters whose own glyph set shows nothing nested (seeded C09b)", "ufo2ft/filters/flattenComponents.py", "FlattenComponentsIFilter.filter",
      "if glyph is not None:\n    flattened |= _flattenGlyphComponents(glyph, interpolatedLayer or glyphSet)",
      "if glyph is None or not _haveNestedComponents(glyph, glyphSet):\n    continue\nflattened |= _flattenGlyphComponents(glyph, interpolatedLayer or glyphSet)", rule="R09.6"),
    M("interpolatable flatten applied only to masters that look nested", "ufo2ft/filters/flattenComponents.py", "FlattenComponentsIFilter.filter",
      "if glyph is not None:\n    flattened |= _flattenGlyphComponents(glyph, interpolatedLayer or glyphSet)",
      "if glyph is not None and _haveNestedComponents(glyph, glyphSet):\n    flattened |= _flattenGlyphComponents(glyph, interpolatedLayer or glyphSet)", rule="R09.6"),
    M("mixed glyphs decided from the first master only", "ufo2ft/preProcessor.py", "TTFInterpolatablePreProcessor.process",
      "{gname for glyphSet in self.glyphSets for gname, glyph in glyphSet.items() if len(glyph) > 0 and glyph.components}",
      "{gname for glyphSet in self.glyphSets[:1] for gname, glyph in glyphSet.items() if len(glyph) > 0 and glyph.components}", rule="R09.1"),
    M("2x2 mismatch check dropped", "ufo2ft/preProcessor.py", "TTFInterpolatablePreProcessor.process",
      "self.check_for_nonmatching_components(needs_decomposition)", "pass", rule="R09.1"),
    M("per-master decomposition", "ufo2ft/preProcessor.py", "TTFInterpolatablePreProcessor.process",
      "self._run(DecomposeComponentsIFilter(include=needs_decomposition))", "self._run(DecomposeComponentsFilter(include=lambda g: len(g) and g.components))", rule="R09.1"),
    M("curves converted master by master", "ufo2ft/preProcessor.py", "TTFInterpolatablePreProcessor.process",
      "fonts_to_quadratic(self.glyphSets, max_err=self._conversionErrors, reverse_direction=self._reverseDirection, dump_stats=True, remember_curve_type=self._rememberCurveType and self.inplace, all_quadratic=self.allQuadratic)",
      "any([fonts_to_quadratic([gs], max_err=e, reverse_direction=self._reverseDirection, dump_stats=True, remember_curve_type=self._rememberCurveType and self.inplace, all_quadratic=self.allQuadratic) for gs, e in zip(self.glyphSets, self._conversionErrors)])",
      rule="R09.1"),
    M("2x2 compared with offsets included", "ufo2ft/preProcessor.py", "TTFInterpolatablePreProcessor.check_for_nonmatching_components",
      "layer.components[component_index].transformation[0:4]", "layer.components[component_index].transformation[4:6]", rule="R09.1"),
    M("overlaps removed in interpolatable CFF masters", "ufo2ft/preProcessor.py", "OTFInterpolatablePreProcessor.initDefaultFilters",
      "filters.append(decompose)", "filters.append(decompose)\nfilters.append(RemoveOverlapsFilter())", rule="R09.1"),
    M("new filter without interpolatable sibling", "ufo2ft/filters/sortContours.py", "",
      "<append-module>", "class RotateContoursFilter(BaseFilter):\n    def filter(self, glyph):\n        return False\n", rule="R09.2"),
    M("sibling option tables differ", "ufo2ft/filters/decomposeTransformedComponents.py", "",
      "<append-module>", "DecomposeTransformedComponentsIFilter._kwargs = {'extra': 1}\nclass _X(DecomposeTransformedComponentsIFilter):\n    pass\n", kind="equiv"),
    M("merge ignores differing options", "ufo2ft/preProcessor.py", "BaseInterpolatablePreProcessor._try_as_interpolatable_filter",
      "type(f) is filter_class and f.options == filter_.options and (f.pre == filter_.pre)", "type(f) is filter_class and f.pre == filter_.pre", rule="R09.3"),
    M("merge ignores the class", "ufo2ft/preProcessor.py", "BaseInterpolatablePreProcessor._try_as_interpolatable_filter",
      "type(f) is filter_class and f.options == filter_.options and (f.pre == filter_.pre)", "f.options == filter_.options and f.pre == filter_.pre", rule="R09.3"),
    M("masters rounded individually", "ufo2ft/_compilers/interpolatableTTFCompiler.py", "InterpolatableTTFCompiler.compileOutlines",
      "kwargs['roundCoordinates'] = False", "pass", rule="R09.4"),
    M("implied on-curves dropped per master", "ufo2ft/_compilers/interpolatableTTFCompiler.py", "InterpolatableTTFCompiler.compileOutlines",
      "kwargs['dropImpliedOnCurves'] = False", "kwargs['dropImpliedOnCurves'] = self.dropImpliedOnCurves", rule="R09.4"),
    M("sparse table set for every master", "ufo2ft/_compilers/interpolatableTTFCompiler.py", "InterpolatableTTFCompiler.compileOutlines",
      "SPARSE_TTF_MASTER_TABLES if layerName else None", "SPARSE_TTF_MASTER_TABLES", rule="R09.5"),
    M("placeholders also in the default master", "ufo2ft/outlineCompiler.py", "OutlineTTFCompiler.makeMissingRequiredGlyphs",
      "not self.compilingVFDefaultSource", "True", rule="R09.5"),
    M("placeholder takes part in metrics", "ufo2ft/outlineCompiler.py", "OutlineTTFCompiler.makeMissingRequiredGlyphs",
      "newGlyph(comp.baseGlyph, width=65535, height=65535)", "newGlyph(comp.baseGlyph, width=0, height=0)", rule="R09.5"),
    M("interpolatable decomposition stops at the first master without components", "ufo2ft/filters/decomposeComponents.py", "DecomposeComponentsIFilter.filter",
      "glyph = glyphSet.get(glyphName)", "glyph = glyphSet.get(glyphName)\nif glyph is not None and not glyph.components:\n    break", rule="R09.6"),
    M("interpolatable flatten returns after the first changed master", "ufo2ft/filters/flattenComponents.py", "FlattenComponentsIFilter.filter",
      "flattened |= _flattenGlyphComponents(glyph, interpolatedLayer or glyphSet)", "flattened |= _flattenGlyphComponents(glyph, interpolatedLayer or glyphSet)\nif flattened:\n    return True", rule="R09.6"),
]
