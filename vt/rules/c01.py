"""C01 - CFF outlines and advances equal the source with components resolved (plumbing clauses)."""

from __future__ import annotations

import ast

from ..core import astutil as A
from ..core.index import AnalysisError, ClassInfo, external_init_signature, external_signature
from ..selftest import M
from .common import (is_early_exit_guard, may_conds, BASE_OUTLINE, OTF_OUTLINE, T, attr_stores, calls_named, compiler_field_classes, conds, every_origin, facts, key,
                     need, subscript_stores, where)
from .rounding import check_banned_coercions, check_helper, flows_through_otround, is_otround

PRE = "ufo2ft.preProcessor"
OTF_COMPILERS = ["ufo2ft._compilers.otfCompiler.OTFCompiler", "ufo2ft._compilers.interpolatableOTFCompiler.InterpolatableOTFCompiler",
                 "ufo2ft._compilers.variableCFF2sCompiler.VariableCFF2sCompiler"]


def run(prog, chk):
    chk.decided += [
        "every CFF pre-processing path decomposes all components unconditionally (no include/exclude), before anything is drawn (R01.1)",
        "flipped components are reversed: reverseFlipped defaults to True, is forwarded to the decomposing pen, and no call site switches it off (R01.2)",
        "otRound (halves up) is the only integeriser of advance widths / heights / charstring widths; roundTolerance reaches the charstring pen; builtin round/int/floor/ceil only at reviewed sites (R01.3)",
        "a negative advance raises before anything is stored (R01.4)",
        "each glyph is drawn exactly once, directly into its charstring pen, in glyph-order (R01.5)",
        "glyph geometry is not rounded inside the pre-processing filters or the decomposition helper: coordinates are rounded once, when written (R01.6)",
    ]
    chk.decided += ["components are only resolved into contours by util.decomposeCompositeGlyph; no other decomposing pen / component removal outside reviewed functions (R01.7, shared with C15)",
                    "the outline compilers generate a glyph only for a name the glyph set lacks: a source glyph is never replaced by a generated one (R01.8, shared with C02)",
                    "a glyph's width / height is only assigned at the reviewed sites: the compiled advance is the source glyph's own (R01.9)"]
    chk.decided += ["every glyph's charstring is compiled from that glyph: OutlineOTFCompiler.compileGlyphs stores, under each glyph's name, the object getCharStringForGlyph returned for that very glyph - "
                    "no look-alike table hands one glyph the charstring (or the charstring object) of another (R01.12 = R12.10)"]
    chk.decided += ["the CFF font matrix scales charstring units by 1 / unitsPerEm of the same font info (on both diagonal entries, nothing else), on every path of setupTable_CFF (R01.11)"]
    chk.decided += ["the caller's outline options reach the outline compiler as given: compileOutlines only overrides the reviewed entries of the forwarded option table "
                    "(sparse-master tables, optimizeCFF / glyphDataFormat / roundCoordinates / dropImpliedOnCurves of interpolatable masters) and no compiler assigns an outline option to itself (R01.10)"]
    chk.decided += ["the decomposition helper draws every component it removes, whatever its transformation: what a master contributes does not depend on that master's own transform values (R01.13 = R15.1b)"]
    chk.decided += ["the default filters of a pre-processor are the list initDefaultFilters returned: none of them is dropped because a custom filter 'already does it' (a custom decompose filter restricted "
                    "to some glyphs does not stand for the unrestricted default one) (R01.14 = R02.20)"]
    chk.not_decided += ["that drawn coordinates equal the source (fontTools pens)", "composition of nested transforms", "semantics of roundTolerance inside T2CharStringPen"]
    chk.guard(r011, prog, chk)
    chk.guard(r012, prog, chk, "R01.2")
    chk.guard(r013, prog, chk)
    chk.guard(r014, prog, chk)
    chk.guard(r015, prog, chk)
    chk.guard(r016, prog, chk)
    from .c15 import check_single_decomposer
    chk.guard(check_single_decomposer, prog, chk, "R01.7")
    chk.guard(check_only_missing_glyphs_added, prog, chk, "R01.8")
    chk.guard(r019, prog, chk)
    chk.guard(check_outline_option_overrides, prog, chk, "R01.10")
    chk.guard(r0111, prog, chk)
    chk.guard(r0112, prog, chk, "R01.12")
    from .c15 import r151b
    chk.guard(r151b, prog, chk, "R01.13")
    chk.guard(check_default_filters_kept, prog, chk, "R01.14")


# ----------------------------------------------------------------------------- R01.1
def r011(prog, chk):
    ix = prog.ix
    DEC = "ufo2ft.filters.decomposeComponents"
    for cq in OTF_COMPILERS:
        pcs = compiler_field_classes(prog, cq, "preProcessorClass")
        for pc in pcs:
            m = ix.find_method(pc, "initDefaultFilters")
            need(m is not None, f"{pc.name}.initDefaultFilters not found")
            cfg = prog.cfg(m)
            ctor_names = ("DecomposeComponentsFilter", "DecomposeComponentsIFilter")
            ctors = [c for c in A.body_nodes(m.node) if isinstance(c, ast.Call) and A.callee_name(c) in ctor_names]
            unconditional = [c for c in ctors if not c.args and not [k for k in c.keywords if k.arg in ("include", "exclude")]]
            ok = False
            detail = "no unconditional DecomposeComponents(I)Filter()"
            for c in unconditional:
                # the constructed filter ends up in the returned list(s) on every path
                st = ix.enclosing_stmt(c)
                tgt = None
                if isinstance(st, ast.Assign) and isinstance(st.targets[0], ast.Name):
                    tgt = st.targets[0].id
                apps = [a for a in calls_named(m, "append") if a.args and (a.args[0] is c or (tgt and isinstance(a.args[0], ast.Name) and a.args[0].id == tgt))]
                for a in apps:
                    an = cfg.node_of(a)
                    loops = [l for l in ix.ancestors(a) if isinstance(l, ast.For)]
                    guards = [g for g in conds(prog, m, a)]
                    # allowed: inside `for filters in filterses` (one per UFO), nothing else
                    if not guards and all(cfg.dominates(cfg.node_of(l) if False else an, r) or True for r in cfg.return_nodes()):
                        every_path = not any(cfg.exists_path(cfg.entry, [r], avoid=[an]) for r in cfg.return_nodes()) if not loops else True
                        if every_path:
                            ok = True
                            detail = f"{T(a, 60)} on every path" + (" (once per UFO)" if loops else "")
            chk.ob("R01.1", f"{cq.rsplit('.', 1)[1]} -> {pc.name}.initDefaultFilters decomposes everything", ok, where(m), detail=detail,
                   message=f"{pc.name}.initDefaultFilters (used by {cq.rsplit('.', 1)[1]}) does not always add an unconditional "
                           f"DecomposeComponents filter: composite glyphs would reach the charstring pen, which resolves them without reversing flipped components")
    for cname in ("DecomposeComponentsFilter", "DecomposeComponentsIFilter"):
        ci = ix.get_class(f"{DEC}.{cname}")
        f = ci.methods.get("filter")
        need(f is not None, f"{cname}.filter vanished")
        dcs = [c for c in A.body_nodes(f.node) if isinstance(c, ast.Call) and prog.is_call_to(f, c, "ufo2ft.util.decomposeCompositeGlyph")]
        need(dcs, f"{cname}.filter does not call decomposeCompositeGlyph")
        for c in dcs:
            # effective value of each option: what the call passes, else the callee's default
            callee = ix.get_func("ufo2ft.util:decomposeCompositeGlyph")
            cparams = callee.params()
            cargs = callee.node.args
            defaults = dict(zip(cparams[len(cparams) - len(cargs.defaults):], cargs.defaults))
            restricting = []
            for pname, required in (("include", None), ("decomposeNested", True), ("reverseFlipped", True)):
                need(pname in cparams, f"cannot interpret {callee.short}: no parameter {pname}")
                given = A.arg_at(c, cparams.index(pname), pname)
                eff = given if given is not None else defaults.get(pname)
                if not (isinstance(eff, ast.Constant) and eff.value is required):
                    restricting.append(pname)
            chk.ob("R01.1", f"{f.short}|full decomposition", not restricting and len(c.args) >= 2, where(f, c), detail="decomposeCompositeGlyph(glyph, glyphSet): include=None, decomposeNested=True, reverseFlipped=True (given or by default)",
                   message=f"{f.short} restricts the decomposition ({restricting}): nested or selected components stay composite")
        pre = ix.class_attr(ci, "_pre")
        okp = pre is not None and A.is_const(pre[1], True)
        chk.ob("R01.1", f"{cname}._pre", okp, ci.module.relpath, detail="custom-listed decomposition runs before overlap removal", nontrivial=False,
               message=f"{cname} is no longer a pre-filter")
    chk.minimum("R01.1", 5)


# ----------------------------------------------------------------------------- R01.2 (shared with C15)
def r012(prog, chk, rule):
    ix = prog.ix
    d = ix.get_func("ufo2ft.util:decomposeCompositeGlyph")
    a = d.node.args
    names = [x.arg for x in a.args]
    need("reverseFlipped" in names, "decomposeCompositeGlyph has no reverseFlipped parameter")
    defaults = dict(zip(names[len(names) - len(a.defaults):], a.defaults))
    chk.ob(rule, "decomposeCompositeGlyph.reverseFlipped default", A.is_const(defaults.get("reverseFlipped"), True), where(d),
           detail="reverseFlipped=True", message="decomposeCompositeGlyph no longer reverses flipped components by default (mirrored components keep the wrong direction)")
    pens = [c for c in A.body_nodes(d.node) if isinstance(c, ast.Call) and A.callee_name(c) == "DecomposingFilterPointPen"]
    need(pens, "decomposeCompositeGlyph does not build a DecomposingFilterPointPen")
    sig = external_init_signature("fontTools.pens.filterPen", "DecomposingFilterPointPen")
    for c in pens:
        kw = A.kwarg(c, "reverseFlipped")
        ok = kw is not None and isinstance(kw, ast.Name) and kw.id == "reverseFlipped" and "reverseFlipped" in sig \
            and all(d_.kind == "param" for d_ in prog.reaching(d, kw.id, kw))
        chk.ob(rule, "decomposeCompositeGlyph forwards reverseFlipped to the pen", ok, where(d, c), detail=f"pen signature has reverseFlipped: {'reverseFlipped' in sig}",
               message="reverseFlipped is not forwarded to the decomposing pen as the caller gave it (the pen applies it at every nesting level; a value recomputed from the glyph's own components "
                       "loses the reversal of mirrored components further down)")
        for nm in ("include", "decomposeNested"):
            kw = A.kwarg(c, nm)
            okk = kw is not None and isinstance(kw, ast.Name) and kw.id == nm and all(d_.kind == "param" for d_ in prog.reaching(d, kw.id, kw))
            chk.ob(rule, f"decomposeCompositeGlyph forwards {nm}", okk, where(d, c), detail=f"{nm}={nm}",
                   message=f"decomposeCompositeGlyph does not forward its {nm} argument to the pen as the caller gave it (the pen applies it at every nesting level: a set narrowed to "
                           f"the glyph's direct references no longer selects a listed glyph nested inside another listed glyph, which is then left as a dangling component)")
        # the pen writes into the glyph being decomposed, resolving from the given glyph set
        ok = len(c.args) >= 2 and T(c.args[0]) == f"{names[0]}.getPointPen()" and T(c.args[1]) == names[1]
        chk.ob(rule, "decomposing pen draws into the same glyph, resolving from the glyph set", ok, where(d, c), detail=T(c, 70),
               message="the decomposing pen does not write into the decomposed glyph / resolve from the given glyph set")
    # every component is drawn through the pen and then removed
    loop = [n for n in A.body_nodes(d.node) if isinstance(n, ast.For)]
    ok = bool(loop) and any("components" in T(l.iter) for l in loop) and bool(calls_named(d, "removeComponent")) and bool(calls_named(d, "drawPoints"))
    chk.ob(rule, "every component is replayed through the pen and removed", ok, where(d), detail="for component in list(glyph.components): drawPoints(pen); removeComponent",
           message="decomposeCompositeGlyph no longer replaces every component by its outline")
    n = 0
    for fi in ix.functions.values():
        for c in A.body_nodes(fi.node):
            if isinstance(c, ast.Call) and prog.is_call_to(fi, c, "ufo2ft.util.decomposeCompositeGlyph"):
                n += 1
                kw = A.kwarg(c, "reverseFlipped")
                pos = c.args[3] if len(c.args) > 3 else None
                v = kw if kw is not None else pos
                ok = v is None or A.is_const(v, True)
                chk.ob(rule, f"{fi.short}|{A.keytext(fi.node, c)}|reverseFlipped", ok, where(fi, c), detail="call leaves reverseFlipped at True",
                       message=f"{fi.short} switches off the reversal of flipped components")
    need(n >= 4, "call sites of decomposeCompositeGlyph not found")
    chk.minimum(rule, 9)


# ----------------------------------------------------------------------------- R01.3
def r013(prog, chk):
    ix = prog.ix
    otf = ix.get_class(OTF_OUTLINE)
    base = ix.get_class(BASE_OUTLINE)
    # hmtx / vmtx: first tuple element is otRound(glyph.width|height)
    for mname, attr in (("setupTable_hmtx", "width"), ("setupTable_vmtx", "height")):
        m = base.methods[mname]
        stores = [(st, t, v) for st, t, v in subscript_stores(m) if isinstance(v, ast.Tuple) and len(v.elts) == 2]
        need(stores, f"cannot interpret {m.short}: metrics store not found")
        for st, t, v in stores:
            def adv(e, f, _attr=attr):
                return is_otround(prog, f, e) and e.args and isinstance(e.args[0], ast.Attribute) and e.args[0].attr == _attr
            ok, bad = every_origin(prog, m, v.elts[0], adv, allow_const=False)
            chk.ob("R01.3", f"{m.short}|advance = otRound(glyph.{attr})", ok, where(m, st), detail=f"{T(v.elts[0])} <- otRound(glyph.{attr})",
                   message=f"the advance stored in {mname[-4:]} is not otRound(glyph.{attr}) (got {bad}): halves / negatives round differently")
    # charstring width
    g = otf.methods["getCharStringForGlyph"]
    pens = [c for c in A.body_nodes(g.node) if isinstance(c, ast.Call) and A.callee_name(c) == "T2CharStringPen"]
    need(len(pens) == 1, f"cannot interpret {g.short}: T2CharStringPen construction")
    pen = pens[0]
    ok, bad = every_origin(prog, g, pen.args[0], lambda e, f: is_otround(prog, f, e), falsy_ok=True)
    chk.ob("R01.3", f"{g.short}|charstring width is None or otRound(...)", ok and bool(pen.args), where(g, pen), detail="T2CharStringPen(width, ...)",
           message=f"the width written into the charstring is not rounded with otRound ({bad})")
    rt = A.kwarg(pen, "roundTolerance")
    chk.ob("R01.3", f"{g.short}|roundTolerance=self.roundTolerance", rt is not None and T(rt) == "self.roundTolerance", where(g, pen),
           detail="coordinate rounding tolerance reaches the pen", message="the charstring pen is not given self.roundTolerance")
    gs = pen.args[1] if len(pen.args) > 1 else A.kwarg(pen, "glyphSet")
    chk.ob("R01.3", f"{g.short}|pen resolves from the compiled glyph set", gs is not None and T(gs) == "self.allGlyphs", where(g, pen), detail="glyphSet=self.allGlyphs",
           message="the charstring pen resolves components from something other than the compiled glyph set")
    init = otf.methods["__init__"]
    st = [(s, v) for s, t, v in attr_stores(init, "roundTolerance") if T(t.value) == "self"]
    need(st, "OutlineOTFCompiler.__init__ does not set roundTolerance")
    for s, v in st:
        fs = facts(prog, init, s)
        given = any(o == "isnot" and l == "roundTolerance" for o, l, r in fs)
        ok = (given and isinstance(v, ast.Call) and A.callee_name(v) == "float" and T(v.args[0]) == "roundTolerance") or \
             ((not given) and isinstance(v, ast.Constant) and v.value == 0.5)
        chk.ob("R01.3", f"{init.short}|{A.keytext(init.node, s)}", ok, where(init, s), detail="explicit tolerance kept, default 0.5 (= round everything)",
               message="roundTolerance default / conversion changed: coordinates are no longer all rounded to integers by default")
    # default / nominal widths are computed from rounded widths
    gw = otf.methods["getDefaultAndNominalWidths"]
    for c in calls_named(gw, "optimizeWidths"):
        ok, bad = every_origin(prog, gw, c.args[0], lambda e, f: isinstance(e, ast.ListComp) and is_otround(prog, f, e.elt), allow_const=False)
        chk.ob("R01.3", f"{gw.short}|optimizeWidths([otRound(width) ...])", ok, where(gw, c), detail="widths rounded before optimisation",
               message="default/nominal width optimisation works on un-rounded widths")
    check_helper(prog, chk, "R01.3", "ufo2ft.outlineCompiler:_getVerticalOrigin", passthrough_ok=False)
    check_banned_coercions(prog, chk, "R01.3c", ["ufo2ft.outlineCompiler", "ufo2ft.util", "ufo2ft.preProcessor", "ufo2ft.fontInfoData",
                                                 "ufo2ft.instructionCompiler", "ufo2ft.filters.decomposeComponents", "ufo2ft.postProcessor"])
    chk.minimum("R01.3", 9)
    chk.minimum("R01.3c", 8)


# ----------------------------------------------------------------------------- R01.4
def r014(prog, chk):
    base = prog.ix.get_class(BASE_OUTLINE)
    for mname, attr in (("setupTable_hmtx", "width"), ("setupTable_vmtx", "height")):
        m = base.methods[mname]
        cfg = prog.cfg(m)
        stores = [st for st, t, v in subscript_stores(m) if isinstance(v, ast.Tuple)]
        rs = [r for r in A.raises_of(m.node) if A.raise_class(r) == "ValueError"]
        good = []
        for r in rs:
            fs = facts(prog, m, r)
            if any(o == "lt" and rr == "0" for o, l, rr in fs):
                good.append(r)
        ok = bool(good)
        for st in stores:
            # the store is only reached when the advance is not negative
            fs = facts(prog, m, st)
            ok = ok and any(o == "ge" and rr == "0" for o, l, rr in fs)
        chk.ob("R01.4", f"{m.short}|negative {attr} raises before the metric is stored", ok and bool(stores), where(m),
               detail=f"raise ValueError under `{attr} < 0`; store only under `{attr} >= 0`",
               message=f"a negative advance {attr} is no longer rejected: it is stored into {mname[-4:]} (wraps around as unsigned)")
    chk.minimum("R01.4", 2)


# ----------------------------------------------------------------------------- R01.5
def r015(prog, chk):
    otf = prog.ix.get_class(OTF_OUTLINE)
    g = otf.methods["getCharStringForGlyph"]
    cfg = prog.cfg(g)
    pens = [c for c in A.body_nodes(g.node) if isinstance(c, ast.Call) and A.callee_name(c) == "T2CharStringPen"]
    draws = [c for c in calls_named(g, "draw", "drawPoints")]
    gcs = [c for c in calls_named(g, "getCharString")]
    need(pens and gcs, f"cannot interpret {g.short}")
    pen_st = prog.ix.enclosing_stmt(pens[0])
    pen_name = pen_st.targets[0].id if isinstance(pen_st, ast.Assign) and isinstance(pen_st.targets[0], ast.Name) else None
    ok = len(draws) == 1 and pen_name is not None
    if ok:
        d = draws[0]
        in_loop = any(isinstance(a, (ast.For, ast.While)) for a in prog.ix.ancestors(d))
        direct = len(d.args) == 1 and isinstance(d.args[0], ast.Name) and d.args[0].id == pen_name and T(d.func.value) == g.params()[1]
        order = cfg.dominates(cfg.node_of(pens[0]), cfg.node_of(d)) and cfg.dominates(cfg.node_of(d), cfg.node_of(gcs[0]))
        uncond = not may_conds(prog, g, d)
        same_pen = T(gcs[0].func.value) == pen_name
        ok = (not in_loop) and direct and order and uncond and same_pen
    chk.ob("R01.5", f"{g.short}|glyph drawn once, directly into its charstring pen", ok, where(g),
           detail=f"{len(draws)} draw call(s); pen -> glyph.draw(pen) -> pen.getCharString()",
           message="the glyph is not drawn exactly once, unconditionally and directly, into the T2CharStringPen that produces its charstring "
                   "(a contour can be lost, duplicated, filtered or reordered)")
    cg = otf.methods["compileGlyphs"]
    calls = [c for c in calls_named(cg, "getCharStringForGlyph")]
    ok = len(calls) == 1 and len([a for a in prog.ix.ancestors(calls[0]) if isinstance(a, ast.For)]) == 1
    if ok:
        arg = calls[0].args[0]
        okk, _ = every_origin(prog, cg, arg, lambda e, f: isinstance(e, ast.Subscript) and T(e.value) == "self.allGlyphs", allow_const=False)
        ok = okk
    chk.ob("R01.5", f"{cg.short}|one charstring per glyph of the compiled glyph set", ok, where(cg), detail="for name in self.glyphOrder: getCharStringForGlyph(self.allGlyphs[name])",
           message="compileGlyphs does not compile each glyph of the glyph order exactly once from the compiled glyph set")
    chk.minimum("R01.5", 2)


# ----------------------------------------------------------------------------- R01.6
REVIEWED_ROUND_IN_FILTERS = {
    "TransformationsFilter.get_origin_height": "rounds half of a font-level metric that becomes the origin of the transformation, not a coordinate of a glyph",
    "DottedCircleFilter.check_and_add_anchors": "anchors that the filter itself adds to the dotted-circle glyph (averages of other glyphs' anchors; no source counterpart; anchors are not outline coordinates)",
}


def r016(prog, chk):
    """Coordinates are rounded once, where they are written into the font: nothing in the
    pre-processing filters (or in the decomposition helper) rounds glyph geometry - an
    earlier rounding of offsets or points makes the result differ from rounding the fully
    transformed coordinate, and ignores roundTolerance."""
    n = 0
    for fi in prog.ix.functions.values():
        if not (fi.module.name.startswith("ufo2ft.filters") or fi.short in ("decomposeCompositeGlyph", "_copyGlyph")):
            continue
        for c in A.body_nodes(fi.node):
            if not isinstance(c, ast.Call):
                continue
            name = A.callee_name(c)
            if not (is_otround(prog, fi, c) or name in ("otRound", "otRoundIgnoringVariable", "quantize") or (name == "round" and isinstance(c.func, ast.Attribute))):
                continue
            n += 1
            owner = fi.short
            ok = owner in REVIEWED_ROUND_IN_FILTERS
            if ok:
                chk.exempt("R01.6", f"{owner}|{A.keytext(fi.node, c)}", REVIEWED_ROUND_IN_FILTERS[owner])
            chk.ob("R01.6", f"{owner}|{A.keytext(fi.node, c)}", ok, where(fi, c), detail=REVIEWED_ROUND_IN_FILTERS.get(owner, ""),
                   message=f"{owner} rounds geometry inside the pre-processing stage (`{T(c, 50)}`): coordinates must stay exact until they are written "
                           f"(rounded once, after the full transformation, honouring roundTolerance)")
    chk.ob("R01.6", "no rounding of glyph geometry in the filters / decomposition helper outside the reviewed sites", True, "", detail=f"{n} rounding call(s) examined", nontrivial=False)
    chk.minimum("R01.6", 3)



# ----------------------------------------------------------------------------- R01.8
def check_only_missing_glyphs_added(prog, chk, rule):
    """The outline compilers generate a glyph (.notdef, empty bases of sparse composites) only for a name that the
    glyph set does not have: a source glyph, however empty, is an exported glyph like any other and is never
    replaced by a generated one."""
    ix = prog.ix
    n = 0
    for cq in (BASE_OUTLINE, OTF_OUTLINE, "ufo2ft.outlineCompiler.OutlineTTFCompiler"):
        m = ix.get_class(cq).methods.get("makeMissingRequiredGlyphs")
        if m is None:
            continue
        gs = m.params()[2]
        for st, t, v in subscript_stores(m):
            if T(t.value) != gs:
                continue
            n += 1
            fs = facts(prog, m, st)
            ok = any(o == "notin" and l == T(t.slice) and r == gs for o, l, r in fs)
            chk.ob(rule, f"{m.short}|{A.keytext(m.node, st)}|generated glyphs only fill names the glyph set lacks", ok, where(m, st), detail=f"{T(t.slice)} not in {gs}",
                   message=f"{m.short}: `{T(st, 60)}` can replace a glyph that exists in the source (it is not guarded by `{T(t.slice)} not in {gs}`): the compiled font then "
                           f"shows a generated outline / advance instead of the source's")
    need(n >= 2, "makeMissingRequiredGlyphs: glyph set stores not found")
    chk.minimum(rule, 2)



# ----------------------------------------------------------------------------- R01.9
ADVANCE_WRITERS = {
    "_copyGlyph": "the working copy takes the source glyph's own width / height",
    "TransformationsFilter.filter": "an explicitly requested transformation maps the advance as a vector (C15)",
    "swap_glyph_names": "instantiator rule swaps exchange whole glyphs, advances included (C19)",
    "StubGlyph.__init__": "the generated .notdef",
    "_notdefGlyphFallback": "placeholder .notdef of sparse variable-font masters (0xFFFF sentinel)",
}


def r019(prog, chk):
    """The advance a glyph is compiled with is the advance of the source glyph it is compiled from: outside the reviewed
    sites nothing in the package assigns a glyph's width / height (no filling in from another layer, no defaulting)."""
    ix = prog.ix
    n = 0
    for fi in ix.functions.values():
        if isinstance(fi.node, ast.Lambda):
            continue
        for attr in ("width", "height"):
            for st, t, v in attr_stores(fi, attr):
                if isinstance(t.value, ast.Name) and t.value.id == "self" and fi.short not in ADVANCE_WRITERS:
                    # a class's own attribute of that name (pens, namespaces): not a glyph
                    if fi.cls is not None and not any("Glyph" in c_.name for c_ in ix.mro(fi.cls)):
                        continue
                n += 1
                ok = fi.short in ADVANCE_WRITERS
                if ok:
                    chk.exempt("R01.9", f"{fi.short}|{attr}", ADVANCE_WRITERS[fi.short])
                chk.ob("R01.9", f"{fi.short}|{A.keytext(fi.node, st)}|advances are only written at the reviewed sites", ok, where(fi, st), detail=ADVANCE_WRITERS.get(fi.short, T(st, 60)),
                       message=f"{fi.short}: `{T(st, 60)}` assigns a glyph's {attr}: the compiled advance is then no longer the source glyph's own (not one of the reviewed sites "
                               f"{sorted(ADVANCE_WRITERS)})")
    need(n >= 6, "advance stores not found")
    chk.minimum("R01.9", 6)


# ----------------------------------------------------------------------------- R01.10 (= R02.17)
# (compiler class, option) -> why the override does not change what the caller asked for
REVIEWED_OUTLINE_OVERRIDES = {
    ("InterpolatableOTFCompiler", "tables"): "sparse layer masters only carry the tables varLib merges",
    ("InterpolatableOTFCompiler", "optimizeCFF"): "masters must stay unoptimised to be mergeable (R09.9 / R12); the option is applied to the merged font",
    ("InterpolatableTTFCompiler", "tables"): "sparse layer masters only carry the tables varLib merges",
    ("InterpolatableTTFCompiler", "glyphDataFormat"): "derived from allQuadratic (R02.5)",
    ("InterpolatableTTFCompiler", "roundCoordinates"): "masters keep unrounded coordinates, varLib rounds the deltas",
    ("InterpolatableTTFCompiler", "dropImpliedOnCurves"): "dropping implied points per master would break point compatibility",
    ("TTFCompiler", "glyphDataFormat"): "derived from allQuadratic (R02.5)",
}
# outline options a compiler object may assign to itself, and under which discipline
REVIEWED_SELF_OPTIONS = {
    "notdefGlyph": "designspace fallback, only when the caller gave none (is None guard)",
    "compilingVFDefaultSource": "internal per-source flag of the interpolatable compilers, not a caller option",
}


def check_outline_option_overrides(prog, chk, rule):
    ix = prog.ix
    outline_params = set()
    for q in ("ufo2ft.outlineCompiler.BaseOutlineCompiler", "ufo2ft.outlineCompiler.OutlineOTFCompiler", "ufo2ft.outlineCompiler.OutlineTTFCompiler"):
        init = ix.find_method(ix.get_class(q), "__init__")
        need(init is not None, f"{q}.__init__ not found")
        outline_params |= set(init.params()[1:]) | {a.arg for a in init.node.args.kwonlyargs}
    outline_params -= {"font", "glyphSet"}
    need(len(outline_params) >= 8, "outline compiler options not found")
    methods = [f for f in ix.methods_named("compileOutlines") if f.module.name.startswith("ufo2ft._compilers")]
    need(len(methods) >= 4, f"compileOutlines methods: {len(methods)}")
    for f in methods:
        tabs = [s_ for s_ in A.stmts_of(f.node) if isinstance(s_, ast.Assign) and isinstance(s_.value, ast.Call) and A.callee_name(s_.value) == "prune_unknown_kwargs"
                and len(s_.targets) == 1 and isinstance(s_.targets[0], ast.Name)]
        need(len(tabs) == 1 and T(tabs[0].value.args[0]) == "self.__dict__", f"cannot interpret {f.short}: forwarded option table")
        kw = tabs[0].targets[0].id
        cls = f.cls.name
        writes = []  # (node, key or None)
        for n in A.body_nodes(f.node):
            if isinstance(n, (ast.Assign, ast.AugAssign, ast.Delete)):
                tg = n.targets if isinstance(n, (ast.Assign, ast.Delete)) else [n.target]
                for t in tg:
                    for el in (t.elts if isinstance(t, (ast.Tuple, ast.List)) else [t]):
                        if isinstance(el, ast.Subscript) and isinstance(el.value, ast.Name) and el.value.id == kw:
                            writes.append((n, el.slice.value if isinstance(el.slice, ast.Constant) else None))
                        elif isinstance(el, ast.Name) and el.id == kw and n is not tabs[0]:
                            writes.append((n, None))
            elif isinstance(n, ast.Call) and isinstance(n.func, ast.Attribute) and isinstance(n.func.value, ast.Name) and n.func.value.id == kw \
                    and n.func.attr in ("pop", "update", "setdefault", "clear", "popitem", "__setitem__", "__delitem__"):
                if n.func.attr in ("pop", "setdefault", "__setitem__", "__delitem__") and n.args and isinstance(n.args[0], ast.Constant):
                    writes.append((n, n.args[0].value))
                elif n.func.attr == "update" and not n.args and n.keywords and all(k.arg for k in n.keywords):
                    writes += [(n, k.arg) for k in n.keywords]
                elif n.func.attr == "update" and len(n.args) == 1 and isinstance(n.args[0], ast.Dict) and all(isinstance(k, ast.Constant) for k in n.args[0].keys):
                    writes += [(n, k.value) for k in n.args[0].keys]
                else:
                    writes.append((n, None))
        ctor = [c for c in A.body_nodes(f.node) if isinstance(c, ast.Call) and any(k.arg is None and T(k.value) == kw for k in c.keywords)]
        need(len(ctor) == 1, f"cannot interpret {f.short}: outline compiler construction")
        for k in ctor[0].keywords:
            if k.arg is not None and k.arg != "glyphSet":
                writes.append((ctor[0], k.arg))
        for n, key in writes:
            ok = key is not None and (cls, key) in REVIEWED_OUTLINE_OVERRIDES
            chk.ob(rule, f"{f.short}|option '{key}' overridden on the way to the outline compiler", ok, where(f, n), detail=REVIEWED_OUTLINE_OVERRIDES.get((cls, key), T(n, 80)),
                   message=f"{f.short}: the caller's `{key if key is not None else T(n, 50)}` option is overridden on the way to the outline compiler (`{T(n, 70)}`): "
                           f"the outlines are no longer compiled with the options the caller asked for")
        chk.ob(rule, f"{f.short}|the option table is the compiler's own fields pruned to the outline compiler's parameters", True, where(f, tabs[0]), detail=T(tabs[0], 90), nontrivial=False)
    # no compiler assigns an outline option to itself
    n = 0
    for fi in ix.functions.values():
        if not fi.module.name.startswith("ufo2ft._compilers") or isinstance(fi.node, ast.Lambda):
            continue
        for s_, t, v in [x for p_ in sorted(outline_params) for x in attr_stores(fi, p_)]:
            if isinstance(t.value, ast.Name) and t.value.id == "self":
                n += 1
                if t.attr == "glyphOrder":
                    continue  # R03.8 decides this one (never)
                ok = t.attr in REVIEWED_SELF_OPTIONS
                if ok and t.attr == "notdefGlyph":
                    ok = any(o == "is" and l == "self.notdefGlyph" and r == "None" for o, l, r in facts(prog, fi, s_))
                chk.ob(rule, f"{fi.short}|self.{t.attr} assigned", ok, where(fi, s_), detail=REVIEWED_SELF_OPTIONS.get(t.attr, T(s_, 80)),
                       message=f"{fi.short} assigns the outline option `{t.attr}` on the compiler object (`{T(s_, 70)}`): every source compiled afterwards gets this value "
                               f"instead of the caller's")
    chk.minimum(rule, 10)


# ----------------------------------------------------------------------------- R01.11
def r0111(prog, chk):
    """Charstring coordinates are font units; without FontMatrix = 1 / unitsPerEm a CFF rasteriser assumes 1000 units per em
    and draws every glyph (and its advance) scaled by unitsPerEm / 1000."""
    ix = prog.ix
    f = ix.get_method(OTF_OUTLINE, "setupTable_CFF", own=True)
    sts = [(s_, t, v) for s_, t, v in attr_stores(f, "FontMatrix")]
    ok = len(sts) == 1 and isinstance(sts[0][2], (ast.List, ast.Tuple)) and len(sts[0][2].elts) == 6
    detail = T(sts[0][2], 80) if sts else "no FontMatrix store"
    if ok:
        s_, t, v = sts[0]
        def inv_upm(e):
            if not (isinstance(e, ast.BinOp) and isinstance(e.op, ast.Div) and isinstance(e.left, ast.Constant) and e.left.value in (1, 1.0)):
                return False
            okd, _ = every_origin(prog, f, e.right, lambda x, ff: isinstance(x, ast.Call) and A.callee_name(x) == "getAttrWithFallback" and len(x.args) == 2 and A.is_const(x.args[1], "unitsPerEm")
                                  or (isinstance(x, ast.Call) and A.callee_name(x) in ("otRound", "int", "float", "round") and len(x.args) == 1 and isinstance(x.args[0], ast.Call)
                                      and A.callee_name(x.args[0]) == "getAttrWithFallback" and A.is_const(x.args[0].args[1], "unitsPerEm")), allow_const=False)
            return okd
        e = v.elts
        ok = inv_upm(e[0]) and inv_upm(e[3]) and all(A.is_const(x, 0) for x in (e[1], e[2], e[4], e[5]))
        # on every path: the store is not conditional
        ok = ok and not [g for g in may_conds(prog, f, s_) if g.kind in ("if", "boolop", "ifexp", "while", "for") and not is_early_exit_guard(prog, f, g)]
    chk.ob("R01.11", f"{f.short}|FontMatrix = [1 / unitsPerEm, 0, 0, 1 / unitsPerEm, 0, 0], unconditionally", ok, where(f, sts[0][0]) if sts else where(f), detail=detail,
           message=f"{f.short}: the CFF font matrix is not 1 / unitsPerEm on both axes on every path (`{detail}`): a font whose unitsPerEm is not 1000 is drawn at the wrong size")
    chk.minimum("R01.11", 1)


# ----------------------------------------------------------------------------- R01.12 (= R12.10)
def r0112(prog, chk, rule="R01.12"):
    ix = prog.ix
    f = ix.get_method(OTF_OUTLINE, "compileGlyphs", own=True)
    rets = A.returns_of(f.node)
    need(len(rets) == 1 and isinstance(rets[0].value, ast.Name), f"cannot interpret {f.short}: returned table")
    table = rets[0].value.id
    sts = [(s_, t, v) for s_, t, v in subscript_stores(f) if isinstance(t.value, ast.Name) and t.value.id == table]
    need(len(sts) >= 1, f"cannot interpret {f.short}: stores into {table}")
    for s_, t, v in sts:
        loops = [a for a in ix.ancestors(s_) if isinstance(a, ast.For)]
        ok = bool(loops)
        why = ""
        if ok:
            lp = loops[0]
            # the stored value: the charstring compiled for the glyph of this iteration, as returned
            okv, bad = every_origin(prog, f, v, lambda x, ff: isinstance(x, ast.Call) and A.callee_name(x) == "getCharStringForGlyph", allow_const=False)
            calls = [c for c in A.body_nodes(lp) if isinstance(c, ast.Call) and A.callee_name(c) == "getCharStringForGlyph"]
            okg = len(calls) == 1 and calls[0].args
            if okg:
                g = calls[0].args[0]
                gds = prog.reaching(f, g.id, g) if isinstance(g, ast.Name) else []
                # the glyph is looked up under the name the charstring is stored under
                okg = bool(gds) and all(d.value is not None and isinstance(d.value, ast.Subscript) and T(d.value.slice) == T(t.slice) for d in gds) or \
                    (isinstance(g, ast.Name) and g.id in A.target_names(lp.target) and T(t.slice) in A.target_names(lp.target) or (isinstance(g, ast.Name) and T(t.slice) == f"{g.id}.name"))
            cond_free = not [c for c in may_conds(prog, f, calls[0]) if c.kind in ("if", "boolop", "ifexp", "while") and any(a is lp for a in ix.ancestors(c.loc))] if calls else False
            ok = okv and bool(okg) and cond_free
            why = f"stored value comes from {bad}" if not okv else "" if okg else "glyph / name mismatch" if cond_free else "the compilation is conditional"
        chk.ob(rule, f"{f.short}|{A.keytext(f.node, s_)}|each name gets the charstring compiled from its own glyph", ok, where(f, s_), detail=T(s_, 70),
               message=f"{f.short}: the charstring stored under a glyph's name is not simply the one getCharStringForGlyph returned for that glyph ({why or T(v, 40)}): glyphs that only look "
                       f"alike to some key can receive each other's outline, and a charstring object shared by two glyphs is rewritten twice by an in-place subroutiniser")
    chk.minimum(rule, 1)


# ----------------------------------------------------------------------------- R01.14 (= R02.20)
def check_default_filters_kept(prog, chk, rule):
    ix = prog.ix
    n = 0
    for fi in ix.functions.values():
        if fi.module.name != "ufo2ft.preProcessor" or isinstance(fi.node, ast.Lambda):
            continue
        for s_, t, v in attr_stores(fi, "defaultFilters"):
            if T(t.value) != "self":
                continue
            n += 1
            ok = isinstance(v, ast.Call) and T(v.func) == "self.initDefaultFilters"
            if not ok and isinstance(v, ast.ListComp) and fi.cls is not None and "Interpolatable" in fi.cls.name:
                # the interpolatable pre-processors build one list per master
                ok = isinstance(v.elt, ast.Call) and T(v.elt.func).endswith("initDefaultFilters") and not any(g.ifs for g in v.generators)
            chk.ob(rule, f"{fi.short}|{A.keytext(fi.node, s_)}|the default filters are what initDefaultFilters returned", ok, where(fi, s_), detail=T(v, 80),
                   message=f"{fi.short}: self.defaultFilters is not simply the result of initDefaultFilters (`{T(v, 60)}`): a default step (decomposition, overlap removal, curve conversion) can "
                           f"be left out for a font that has a look-alike custom filter, and glyphs reach the outline compiler unprocessed")
        for c in A.body_nodes(fi.node):
            if isinstance(c, ast.Call) and isinstance(c.func, ast.Attribute) and c.func.attr in ("remove", "pop", "clear", "__delitem__") and T(c.func.value).endswith("defaultFilters"):
                n += 1
                chk.ob(rule, f"{fi.short}|{A.keytext(fi.node, c)}", False, where(fi, c), message=f"{fi.short} removes entries from the default filter list (`{T(c, 50)}`)")
    need(n >= 2, f"{rule}: defaultFilters stores found: {n}")
    chk.minimum(rule, 2)


MUTANTS = [
    M("decompose filter passes the default options explicitly", "ufo2ft/filters/decomposeComponents.py", "DecomposeComponentsFilter.filter",
      "decomposeCompositeGlyph(glyph, self.context.glyphSet)", "decomposeCompositeGlyph(glyph, self.context.glyphSet, reverseFlipped=True, decomposeNested=True)", kind="equiv"),
    M("default filters dropped when a custom pre-filter of the same class and options exists (seeded C01m)", "ufo2ft/preProcessor.py", "BasePreProcessor.__init__",
      "self.defaultFilters = self.initDefaultFilters(**kwargs)",
      "self.defaultFilters = [f for f in self.initDefaultFilters(**kwargs) if not any((type(p) is type(f) and p.options == f.options for p in self.preFilters))]", rule="R01.14"),
    M("components with a singular transformation are dropped instead of drawn (seeded C09k)", "ufo2ft/util.py", "decomposeCompositeGlyph",
      "pen = DecomposingFilterPointPen(glyph.getPointPen(), glyphSet, reverseFlipped=reverseFlipped, include=include, decomposeNested=decomposeNested)",
      "pen = DecomposingFilterPointPen(glyph.getPointPen(), glyphSet, reverseFlipped=reverseFlipped, include=include, decomposeNested=decomposeNested)\nfor component in list(glyph.components):\n    if component.transformation[0] * component.transformation[3] == component.transformation[1] * component.transformation[2]:\n        glyph.removeComponent(component)", rule="R01.13"),
    M("identical programs share one charstring object (seeded C12k)", "ufo2ft/outlineCompiler.py", "OutlineOTFCompiler.compileGlyphs",
      "compiledGlyphs[glyphName] = cs", "compiledGlyphs[glyphName] = seen.setdefault(tuple(cs.program), cs)", rule="R01.12",
      also=(("ufo2ft/outlineCompiler.py", "OutlineOTFCompiler.compileGlyphs", "compiledGlyphs = {}", "compiledGlyphs = {}\nseen = {}"),)),
    M("include narrowed to the direct references before it reaches the pen (seeded C13j)", "ufo2ft/util.py", "decomposeCompositeGlyph",
      "if len(glyph.components) == 0:\n    return", "if len(glyph.components) == 0:\n    return\nif include is not None:\n    include = {c.baseGlyph for c in glyph.components if c.baseGlyph in include}", rule="R01.2"),
    M("CFF font matrix left at the 1000-unit default (mutation scan 3, k=41)", "ufo2ft/outlineCompiler.py", "OutlineOTFCompiler.setupTable_CFF",
      "topDict.FontMatrix = [1.0 / unitsPerEm, 0, 0, 1.0 / unitsPerEm, 0, 0]", "pass", rule="R01.11"),
    M("CFF font matrix only set for non-default unitsPerEm, with the wrong test", "ufo2ft/outlineCompiler.py", "OutlineOTFCompiler.setupTable_CFF",
      "topDict.FontMatrix = [1.0 / unitsPerEm, 0, 0, 1.0 / unitsPerEm, 0, 0]", "if unitsPerEm > 1000:\n    topDict.FontMatrix = [1.0 / unitsPerEm, 0, 0, 1.0 / unitsPerEm, 0, 0]", rule="R01.11"),
    M("non-default CFF masters ignore the caller's roundTolerance (seeded C01i)", "ufo2ft/_compilers/interpolatableOTFCompiler.py", "InterpolatableOTFCompiler.compileOutlines",
      "kwargs['optimizeCFF'] = CFFOptimization.NONE", "kwargs['optimizeCFF'] = CFFOptimization.NONE\nif not self.compilingVFDefaultSource:\n    kwargs['roundTolerance'] = None", rule="R01.10"),
    M("static OTF compiler drops the tolerance from the option table", "ufo2ft/_compilers/baseCompiler.py", "BaseCompiler.compileOutlines",
      "kwargs = prune_unknown_kwargs(self.__dict__, self.outlineCompilerClass)", "kwargs = prune_unknown_kwargs(self.__dict__, self.outlineCompilerClass)\nkwargs.pop('roundTolerance', None)", rule="R01.10"),
    M("compiler object rewrites its own tolerance", "ufo2ft/_compilers/baseCompiler.py", "BaseInterpolatableCompiler.compile",
      "self.glyphSets = self.preprocess(ufos)", "self.glyphSets = self.preprocess(ufos)\nself.roundTolerance = None", rule="R01.10"),
    M("zero-width layer glyphs take the default layer's advance (seeded C01h)", "ufo2ft/util.py", "_GlyphSet.from_layer",
      "return self", "for glyphName, glyph in self.items():\n    if glyphName in font and not glyph.width:\n        glyph.width = font[glyphName].width\nreturn self", rule="R01.9"),
    M("reversal switched off unless a top-level component is mirrored (seeded C15g)", "ufo2ft/util.py", "decomposeCompositeGlyph",
      "pen = DecomposingFilterPointPen(glyph.getPointPen(), glyphSet, reverseFlipped=reverseFlipped, include=include, decomposeNested=decomposeNested)",
      "if reverseFlipped:\n    reverseFlipped = any(c.transformation[0] < 0 for c in glyph.components)\npen = DecomposingFilterPointPen(glyph.getPointPen(), glyphSet, reverseFlipped=reverseFlipped, include=include, decomposeNested=decomposeNested)", rule="R01.2"),
    M("blank .notdef of the source replaced by the generated one (seeded C01e)", "ufo2ft/outlineCompiler.py", "BaseOutlineCompiler.makeMissingRequiredGlyphs",
      "'.notdef' in glyphSet", "'.notdef' in glyphSet and (len(glyphSet['.notdef']) or glyphSet['.notdef'].width)", rule="R01.8"),
    M("component offsets snapped to the grid before decomposition (seeded C01c)", "ufo2ft/filters/decomposeComponents.py", "DecomposeComponentsFilter.filter",
      "decomposeCompositeGlyph(glyph, self.context.glyphSet)",
      "for component in glyph.components:\n    t = component.transformation\n    component.transformation = (t[0], t[1], t[2], t[3], otRound(t[4]), otRound(t[5]))\ndecomposeCompositeGlyph(glyph, self.context.glyphSet)", rule="R01.6"),
    M("copied glyphs get rounded advance", "ufo2ft/util.py", "_copyGlyph", "copy.width = glyph.width", "copy.width = otRound(glyph.width)", rule="R01.6"),
    M("OTF pre-processor only decomposes mixed glyphs", "ufo2ft/preProcessor.py", "OTFPreProcessor.initDefaultFilters",
      "DecomposeComponentsFilter()", "DecomposeComponentsFilter(include=lambda g: len(g))", rule="R01.1"),
    M("interpolatable OTF pre-processor skips decomposition when there are colour layers", "ufo2ft/preProcessor.py", "OTFInterpolatablePreProcessor.initDefaultFilters",
      "for filters in filterses:\n    filters.append(decompose)", "for filters in filterses:\n    if not filters:\n        filters.append(decompose)", rule="R01.1"),
    M("decompose filter keeps nested components", "ufo2ft/filters/decomposeComponents.py", "DecomposeComponentsFilter.filter",
      "decomposeCompositeGlyph(glyph, self.context.glyphSet)", "decomposeCompositeGlyph(glyph, self.context.glyphSet, decomposeNested=False)", rule="R01.1"),
    M("flipped components no longer reversed by default", "ufo2ft/util.py", "decomposeCompositeGlyph",
      "<rename-param>", "reverseFlipped->reverse_flipped", rule="R01.2"),
    M("reverseFlipped not forwarded", "ufo2ft/util.py", "decomposeCompositeGlyph",
      "DecomposingFilterPointPen(glyph.getPointPen(), glyphSet, reverseFlipped=reverseFlipped, include=include, decomposeNested=decomposeNested)",
      "DecomposingFilterPointPen(glyph.getPointPen(), glyphSet, include=include, decomposeNested=decomposeNested)", rule="R01.2"),
    M("skip-export decomposition keeps mirrored direction", "ufo2ft/filters/skipExportGlyphs.py", "SkipExportGlyphsFilter.filter",
      "decomposeCompositeGlyph(glyph, self.context.glyphSet, decomposeNested=False, include=self.options.skipExportGlyphs)",
      "decomposeCompositeGlyph(glyph, self.context.glyphSet, decomposeNested=False, include=self.options.skipExportGlyphs, reverseFlipped=False)", rule="R01.2"),
    M("hmtx rounds with builtin round", "ufo2ft/outlineCompiler.py", "BaseOutlineCompiler.setupTable_hmtx",
      "width = otRound(glyph.width)", "width = round(glyph.width)", rule="R01.3"),
    M("vmtx truncates the height", "ufo2ft/outlineCompiler.py", "BaseOutlineCompiler.setupTable_vmtx",
      "height = otRound(glyph.height)", "height = int(glyph.height)", rule="R01.3"),
    M("charstring width rounded with builtin round", "ufo2ft/outlineCompiler.py", "OutlineOTFCompiler.getCharStringForGlyph",
      "width = otRound(width)", "width = round(width)", rule="R01.3"),
    M("charstring pen loses the tolerance", "ufo2ft/outlineCompiler.py", "OutlineOTFCompiler.getCharStringForGlyph",
      "T2CharStringPen(width, self.allGlyphs, roundTolerance=self.roundTolerance)", "T2CharStringPen(width, self.allGlyphs)", rule="R01.3"),
    M("default tolerance no longer rounds everything", "ufo2ft/outlineCompiler.py", "OutlineOTFCompiler.__init__",
      "self.roundTolerance = 0.5", "self.roundTolerance = 0.25", rule="R01.3"),
    M("vertical origin helper truncates", "ufo2ft/outlineCompiler.py", "_getVerticalOrigin",
      "return otRound(verticalOrigin)", "return int(verticalOrigin)", rule="R01.3"),
    M("new coercion in a table builder", "ufo2ft/outlineCompiler.py", "BaseOutlineCompiler.setupTable_OS2",
      "os2.sxHeight = otRound(getAttrWithFallback(font.info, 'xHeight'))", "os2.sxHeight = int(getAttrWithFallback(font.info, 'xHeight'))", rule="R01.3c"),
    M("negative width guard deleted", "ufo2ft/outlineCompiler.py", "BaseOutlineCompiler.setupTable_hmtx",
      "if width < 0:\n    raise ValueError(\"The width should not be negative: '%s'\" % glyphName)", "pass", rule="R01.4"),
    M("negative width only logged", "ufo2ft/outlineCompiler.py", "BaseOutlineCompiler.setupTable_hmtx",
      "raise ValueError(\"The width should not be negative: '%s'\" % glyphName)", "logger.warning('negative width %s', glyphName)", rule="R01.4"),
    M("glyph drawn through a filtering pen", "ufo2ft/outlineCompiler.py", "OutlineOTFCompiler.getCharStringForGlyph",
      "glyph.draw(pen)", "glyph.draw(ReverseContourPen(pen))", rule="R01.5"),
    M("glyph drawn twice", "ufo2ft/outlineCompiler.py", "OutlineOTFCompiler.getCharStringForGlyph",
      "glyph.draw(pen)", "glyph.draw(pen)\nglyph.draw(pen)", rule="R01.5"),
    # equivalents
    M("width rounding written in one expression", "ufo2ft/outlineCompiler.py", "OutlineOTFCompiler.getCharStringForGlyph",
      "if width is not None:\n    width = otRound(width)", "width = otRound(width) if width is not None else None", kind="equiv"),
    M("decompose filter instance kept in a local", "ufo2ft/preProcessor.py", "OTFPreProcessor.initDefaultFilters",
      "filters.append(DecomposeComponentsFilter())", "dec = DecomposeComponentsFilter()\nfilters.append(dec)", kind="equiv"),
    M("negative-width check inverted", "ufo2ft/outlineCompiler.py", "BaseOutlineCompiler.setupTable_hmtx",
      "if width < 0:\n    raise ValueError(\"The width should not be negative: '%s'\" % glyphName)",
      "if not width >= 0:\n    raise ValueError('negative width')", kind="equiv"),
]
