"""C11 - production names rename glyphs and change nothing else (structural clauses)."""

from __future__ import annotations

import ast
import re
from typing import Dict, List, Optional, Set, Tuple

from ..core import astutil as A
from ..core.index import AnalysisError, FuncInfo
from ..selftest import M
from .common import ext_name, branch_values, atoms_of, may_conds, T, attr_stores, calls_named, conds, every_origin, facts, need, subscript_stores, where

PP = "ufo2ft.postProcessor.PostProcessor"


def run(prog, chk):
    chk.decided += [
        "the font is reloaded (tables frozen to glyph indices) before glyphs are renamed; dropping names sets post format 3 before the reload (R11.1)",
        "rename_glyphs updates every name carrier with the same map: glyph order, post 2.0 extraNames / mapping, CFF charset and CharStrings keys; the three extraNames computations agree (R11.2)",
        "every name stored in the rename map went through the invalid-character filter and _unique_name; _unique_name records every name it returns; names of glyphs that are not renamed are reserved before unique names are handed out (R11.3)",
        "decision structure: argument None -> lib keys with documented defaults, argument given -> names kept (R11.4)",
        "uniXXXX / uXXXXX switch at 0xFFFF with %04X; ligature names only from BMP parts; lib-supplied names win when non-empty (R11.5)",
        "the invalid-character pattern is the complement of [0-9A-Za-z_.] (R11.6)",
    ]
    chk.decided += ["an explicit useProductionNames reaches the renaming step as given: PostProcessor.process hands process_glyph_names its untouched parameter, and inside process_glyph_names the lib "
                    "keys are only consulted under `useProductionNames is None` (production names ON means renamed, whatever the UFO lib says) (R11.8)"]
    chk.decided += ["every compiled master - sparse layer masters included - goes through the post-processor: compile_one calls self.postprocess on the font it returns under no condition, so the masters of "
                    "one family are renamed alike (R11.9)"]
    chk.decided += ["the post-processor keeps no container on the class that its methods write to: the names of one font do not depend on fonts processed earlier in the same process (R11.10)"]
    chk.not_decided += ["byte identity of the other tables (fontTools compile / reload)", "the glyph order itself"]
    chk.decided += ["each variable font is post-processed with its own UFO / info / glyph set, never with compiler state of the last interpolable sub-space (R11.7)"]
    chk.guard(r111, prog, chk)
    chk.guard(r112, prog, chk)
    chk.guard(r113, prog, chk)
    chk.guard(r114, prog, chk)
    chk.guard(r115, prog, chk)
    chk.guard(r116, prog, chk)
    chk.guard(r117, prog, chk)
    chk.guard(r118, prog, chk)
    chk.guard(r119, prog, chk)
    chk.guard(r1110, prog, chk)


def _keep_var(prog, f) -> str:
    """the local that holds the keep-glyph-names decision: assigned from lib.get(KEEP_GLYPH_NAMES, ...)"""
    for st in A.stmts_of(f.node):
        if isinstance(st, ast.Assign) and isinstance(st.targets[0], ast.Name) and isinstance(st.value, ast.Call) and st.value.args and T(st.value.args[0]) == "KEEP_GLYPH_NAMES":
            return st.targets[0].id
    raise AnalysisError(f"cannot interpret {f.short}: keep-glyph-names variable")


# ----------------------------------------------------------------------------- R11.1
def r111(prog, chk):
    ix = prog.ix
    f = ix.get_method(PP, "process_glyph_names", own=True)
    cfg = prog.cfg(f)
    kg = _keep_var(prog, f)
    up = f.params()[1]
    ren = [c for c in calls_named(f, "_rename_glyphs_from_ufo")]
    need(len(ren) == 1, f"cannot interpret {f.short}: rename call")
    rel = [s for s, t, v in attr_stores(f, "otf") if isinstance(v, ast.Call) and A.callee_name(v) == "_reloadFont" and T(v.args[0]) == "self.otf"]
    dom = [s for s in rel if cfg.dominates(cfg.node_of(s), cfg.node_of(ren[0]))]
    chk.ob("R11.1", f"{f.short}|the font is reloaded before glyphs are renamed", len(dom) == 1, where(f, ren[0]), detail="self.otf = _reloadFont(self.otf); self._rename_glyphs_from_ufo()",
           message=f"{f.short}: glyphs are renamed without reloading the font first: tables still holding the old names are written with them (or break)")
    fs = facts(prog, f, ren[0])
    ok = any(o == "truthy" and l == up for o, l, r in fs) and any(o == "truthy" and l == kg for o, l, r in fs)
    chk.ob("R11.1", f"{f.short}|renaming only when production names are wanted and names are kept", ok, where(f, ren[0]), detail="if keepGlyphNames: ... if useProductionNames:",
           message=f"{f.short}: glyphs are renamed although production names are off (or names are dropped)")
    drop = [c for c in calls_named(f, "set_post_table_format") if len(c.args) == 2 and A.is_const(c.args[1], 3.0)]
    need(len(drop) == 1, f"cannot interpret {f.short}: post format 3")
    rel3 = [s for s in rel if cfg.dominates(cfg.node_of(drop[0]), cfg.node_of(s))]
    fs = facts(prog, f, drop[0])
    ok = len(rel3) == 1 and any(o == "falsy" and l == kg for o, l, r in fs) and any(o == "notin" and "CFF" in l for o, l, r in fs)
    chk.ob("R11.1", f"{f.short}|dropping names: post format 3 is set, then the font is reloaded; never for CFF 1", ok, where(f, drop[0]), detail="set_post_table_format(otf, 3.0); self.otf = _reloadFont(self.otf)",
           message=f"{f.short}: names are dropped without reloading afterwards, or for CFF 1 fonts")
    keep = [c for c in calls_named(f, "set_post_table_format") if len(c.args) == 2 and A.is_const(c.args[1], 2.0)]
    ok = len(keep) == 1 and any(o == "truthy" and l == kg for o, l, r in facts(prog, f, keep[0])) and cfg.exists_path(cfg.node_of(keep[0]), [cfg.node_of(ren[0])])
    chk.ob("R11.1", f"{f.short}|keeping names: post format 2 for non-CFF fonts before renaming", ok, where(f), detail="set_post_table_format(otf, 2.0)", message=f"{f.short}: post format 2.0 is not established before renaming")
    rf = ix.get_func("ufo2ft.postProcessor:_reloadFont")
    sv = [c for c in calls_named(rf, "save")]
    rt = A.returns_of(rf.node)
    ok = len(sv) == 1 and len(rt) == 1 and isinstance(rt[0].value, ast.Call) and A.callee_name(rt[0].value) == "TTFont" and T(A.kwarg(rt[0].value, "cfg")) == f"{rf.params()[0]}.cfg"
    chk.ob("R11.1", f"{rf.short}|save to memory and re-open with the same config", ok, where(rf), detail="font.save(stream); TTFont(stream, cfg=font.cfg)", message="_reloadFont does not round-trip the font through its binary form")
    # the reload is the same font, recompiled the way the final save will compile it: no switch of the font object is flipped
    # around the intermediate save (with renaming off there is no intermediate save, so anything it freezes differs between on and off)
    fp = rf.params()[0]
    writes = [n for n in A.body_nodes(rf.node)
              if (isinstance(n, (ast.Assign, ast.AugAssign, ast.Delete)) and any(isinstance(x, (ast.Attribute, ast.Subscript)) and isinstance(getattr(x, "ctx", None), (ast.Store, ast.Del))
                                                                                 and any(isinstance(y, ast.Name) and y.id == fp for y in ast.walk(x)) for x in ast.walk(n)))
              or (isinstance(n, ast.Call) and isinstance(n.func, ast.Name) and n.func.id in ("setattr", "delattr") and n.args and T(n.args[0]) == fp)]
    okw = not writes and len(sv) == 1 and len(sv[0].args) == 1 and not sv[0].keywords and T(sv[0].func.value) == fp \
        and len(rt) == 1 and isinstance(rt[0].value, ast.Call) and {k.arg for k in rt[0].value.keywords} <= {"cfg"} and len(rt[0].value.args) == 1
    chk.ob("R11.1", f"{rf.short}|the font object is saved and re-opened with nothing switched on or off", okw, where(rf, writes[0]) if writes else where(rf),
           detail="no attribute of the font is written; save(stream) and TTFont(stream, cfg=...) take no other option",
           message=f"{rf.short} changes the font object or the save / open options around the intermediate save (`{T(writes[0], 60) if writes else T(sv[0], 50) if sv else ''}`): values the "
                   f"final save would recalculate (bounding boxes, hhea / maxp extrema, timestamps) are frozen only when glyphs are renamed, so renaming changes more than names")
    n_sw = 0
    for fi in ix.functions.values():
        if isinstance(fi.node, ast.Lambda):
            continue
        for x in A.body_nodes(fi.node):
            if isinstance(x, ast.Attribute) and x.attr in ("recalcBBoxes", "recalcTimestamp") and isinstance(x.ctx, (ast.Store, ast.Del)):
                n_sw += 1
                chk.ob("R11.1", f"{fi.short}|{A.keytext(fi.node, ix.enclosing_stmt(x))}", False, where(fi, x), detail=f"{x.attr} written",
                       message=f"{fi.short} switches `{x.attr}` of a font object: what fontTools recalculates when the font is compiled then depends on the path the font took through post-processing")
    chk.minimum("R11.1", 6)


# ----------------------------------------------------------------------------- R11.2
def _is_map_get(e: ast.AST, mapname: str, var: str) -> bool:
    return isinstance(e, ast.Call) and isinstance(e.func, ast.Attribute) and e.func.attr == "get" and T(e.func.value) == mapname and [T(a) for a in e.args] == [var, var]


def r112(prog, chk):
    ix = prog.ix
    f = ix.get_method(PP, "rename_glyphs", own=True)
    otf, rmap = f.params()[:2]
    sgo = [c for c in calls_named(f, "setGlyphOrder")]
    need(len(sgo) == 1, f"cannot interpret {f.short}: setGlyphOrder")
    arg = sgo[0].args[0]
    ds = prog.reaching(f, arg.id, arg) if isinstance(arg, ast.Name) else []
    ok = len(ds) == 1 and isinstance(ds[0].value, ast.ListComp)
    if ok:
        lc = ds[0].value
        v = A.target_names(lc.generators[0].target)[0]
        ok = _is_map_get(lc.elt, rmap, v) and T(lc.generators[0].iter) == f"{otf}.getGlyphOrder()" and not lc.generators[0].ifs
    chk.ob("R11.2", f"{f.short}|new glyph order = old order mapped name by name (same length, same positions)", ok, where(f, sgo[0]), detail="[rename_map.get(n, n) for n in otf.getGlyphOrder()]",
           message=f"{f.short}: the renamed glyph order is not the old order mapped element by element (glyph indices would shift)")
    neworder = arg.id if isinstance(arg, ast.Name) else "?"
    st = [(s, t, v) for s, t, v in attr_stores(f, "extraNames")]
    ok = len(st) == 1 and isinstance(st[0][2], ast.ListComp) and T(st[0][2].generators[0].iter) == neworder
    okm = any(isinstance(v, ast.Dict) and not v.keys for s, t, v in attr_stores(f, "mapping"))
    fs = facts(prog, f, st[0][0]) if st else set()
    okg = any(o == "eq" and "formatType" in l and r == "2.0" for o, l, r in fs)
    chk.ob("R11.2", f"{f.short}|post 2.0 extraNames rebuilt from the new order, mapping reset", ok and okm and okg, where(f, st[0][0]) if st else where(f), detail=T(st[0][2], 80) if st else "",
           message=f"{f.short}: the post table's name list is not rebuilt from the renamed glyph order")
    cs = [(s, t, v) for s, t, v in attr_stores(f, "charStrings")]
    ok = len(cs) == 1 and isinstance(cs[0][2], ast.DictComp)
    if ok:
        dc = cs[0][2]
        kn, vn = A.target_names(dc.generators[0].target)[:2]
        ok = _is_map_get(dc.key, rmap, kn) and T(dc.value) == vn and ".items()" in T(dc.generators[0].iter) and not dc.generators[0].ifs
    chk.ob("R11.2", f"{f.short}|CFF CharStrings re-keyed with the same map, values untouched", ok, where(f, cs[0][0]) if cs else where(f), detail=T(cs[0][2], 80) if cs else "",
           message=f"{f.short}: CFF charstrings are not re-keyed one to one with the rename map")
    ch = [(s, t, v) for s, t, v in attr_stores(f, "charset")]
    ok = len(ch) == 1 and isinstance(ch[0][2], ast.ListComp)
    if ok:
        lc = ch[0][2]
        v = A.target_names(lc.generators[0].target)[0]
        ok = _is_map_get(lc.elt, rmap, v) and T(lc.generators[0].iter).endswith(".charset") and not lc.generators[0].ifs
    chk.ob("R11.2", f"{f.short}|CFF charset mapped with the same map, order kept", ok, where(f, ch[0][0]) if ch else where(f), detail=T(ch[0][2], 80) if ch else "",
           message=f"{f.short}: the CFF charset is not the old charset mapped element by element")
    # the carrier tag: 'CFF ' when the font has it, else 'CFF2' when it has that, else None (whether written as a conditional
    # expression or as if / elif / else assignments)
    okt, shown = False, ""
    for nm in [n for n in A.body_nodes(f.node) if isinstance(n, ast.Name) and isinstance(n.ctx, ast.Load)]:
        bv = branch_values(prog, f, nm)
        vals = [v.value if isinstance(v, ast.Constant) else "?" for v, fs in bv]
        if sorted(map(str, vals)) != sorted(map(str, ["CFF ", "CFF2", None])):
            continue
        shown = "; ".join(f"{T(v)} if {sorted(fs)}" for v, fs in bv)[:120]
        good = True
        for v, fs in bv:
            has1 = any(o == "in" and l == "'CFF '" for o, l, r in fs)
            no1 = any(o == "notin" and l == "'CFF '" for o, l, r in fs)
            has2 = any(o == "in" and l == "'CFF2'" for o, l, r in fs)
            no2 = any(o == "notin" and l == "'CFF2'" for o, l, r in fs)
            good = good and {"CFF ": has1, "CFF2": no1 and has2, None: no1 and no2}[v.value]
        if good:
            okt = True
            break
    chk.ob("R11.2", f"{f.short}|both CFF flavours are carriers", okt, where(f), detail=shown, message=f"{f.short}: the choice of the CFF carrier table (CFF, else CFF2, else none) was changed")
    # CFF is always re-keyed; a CFF2 table only when it is already decompiled (a table decompiled later reads the NEW glyph
    # order, so re-keying it again applies the map twice: colliding names then exchange outlines)
    if cs:
        guards = [g for g in may_conds(prog, f, cs[0][0]) if g.polarity in (True, False)]

        def ev(e, tagv, loaded):
            if isinstance(e, ast.BoolOp):
                vs = [ev(v, tagv, loaded) for v in e.values]
                if any(v is None for v in vs):
                    return None
                return all(vs) if isinstance(e.op, ast.And) else any(vs)
            if isinstance(e, ast.UnaryOp) and isinstance(e.op, ast.Not):
                v = ev(e.operand, tagv, loaded)
                return None if v is None else not v
            if isinstance(e, ast.Compare) and len(e.ops) == 1 and isinstance(e.comparators[0], ast.Constant):
                c = e.comparators[0].value
                if isinstance(e.ops[0], ast.Eq):
                    return tagv == c
                if isinstance(e.ops[0], ast.NotEq):
                    return tagv != c
                if isinstance(e.ops[0], ast.Is):
                    return tagv is c
                if isinstance(e.ops[0], ast.IsNot):
                    return tagv is not c
            if isinstance(e, ast.Call) and A.callee_name(e) == "isLoaded":
                return loaded
            return None

        def holds(tagv, loaded):
            vs = [ev(g.test, tagv, loaded) for g in guards]
            if any(v is None for v in vs):
                return None
            return all(v == g.polarity for v, g in zip(vs, guards))
        tt = {(t_, l_): holds(t_, l_) for t_ in ("CFF ", "CFF2", None) for l_ in (False, True)}
        need(all(v is not None for v in tt.values()), f"cannot interpret {f.short}: the guard of the CharStrings re-keying")
        want = {("CFF ", False): True, ("CFF ", True): True, ("CFF2", False): False, ("CFF2", True): True, (None, False): False, (None, True): False}
        chk.ob("R11.2", f"{f.short}|CFF is always re-keyed, CFF2 only when already decompiled", tt == want, where(f, cs[0][0]), detail=str([T(g.test, 70) for g in guards]),
               message=f"{f.short}: the CharStrings re-keying runs under {[T(g.test, 60) for g in guards]}: a CFF2 table that is not yet loaded is decompiled with the NEW glyph order and then "
                       f"re-keyed a second time (colliding names exchange outlines), or a loaded table is no longer re-keyed")
    # the three extraNames computations agree
    sp = ix.get_method(PP, "set_post_table_format", own=True)
    exprs = []
    for fn in (f, sp):
        for s, t, v in attr_stores(fn, "extraNames"):
            if isinstance(v, ast.ListComp):
                e = v.generators[0]
                exprs.append((fn, T(v.elt) == A.target_names(e.target)[0] and len(e.ifs) == 1 and isinstance(e.ifs[0], ast.Compare) and isinstance(e.ifs[0].ops[0], ast.NotIn) and ext_name(prog, fn, e.ifs[0].comparators[0]) == "fontTools.ttLib.standardGlyphOrder.standardGlyphOrder"))
    ok = len(exprs) >= 2 and all(x[1] for x in exprs)
    chk.ob("R11.2", "extraNames = glyph order without the standard Macintosh names, at every place that computes it", ok, where(sp), detail=f"{len(exprs)} computations",
           message="the places that compute post.extraNames disagree")
    chk.minimum("R11.2", 6)


# ----------------------------------------------------------------------------- R11.3
def r113(prog, chk, rule="R11.3"):
    ix = prog.ix
    f = ix.get_method(PP, "_build_production_names", own=True)
    rets = A.returns_of(f.node)
    need(len(rets) == 1 and isinstance(rets[0].value, ast.Name), f"cannot interpret {f.short}")
    rmap = rets[0].value.id
    st = [(s, t, v) for s, t, v in subscript_stores(f) if T(t.value) == rmap]
    need(st, f"cannot interpret {f.short}: map store")
    seen_names = set()
    for s, t, v in st:
        ok = isinstance(v, ast.Call) and A.callee_name(v) == "_unique_name" and len(v.args) == 2
        chk.ob(rule, f"{f.short}|{A.keytext(f.node, s)}|stored name is _unique_name(name, seen)", ok, where(f, s), detail=T(v),
               message=f"{f.short}: a production name is stored without being made unique")
        if not ok:
            continue
        seen_names.add(T(v.args[1]))
        nm = v.args[0]
        okf, bad = every_origin(prog, f, nm, lambda x, ff: isinstance(x, ast.Call) and isinstance(x.func, ast.Attribute) and x.func.attr == "sub" and T(x.func.value).endswith("GLYPH_NAME_INVALID_CHARS")
                                and A.is_const(x.args[0], ""), allow_const=False)
        chk.ob(rule, f"{f.short}|{A.keytext(f.node, s)}|every stored name went through the invalid-character filter", okf, where(f, s), detail="GLYPH_NAME_INVALID_CHARS.sub('', ...)",
               message=f"{f.short}: a name reaches the rename map without the invalid characters being removed ({bad})")
        loopv = [a for a in ix.ancestors(s) if isinstance(a, ast.For)]
        okk = loopv and T(t.slice) in A.target_names(loopv[0].target)
        chk.ob(rule, f"{f.short}|{A.keytext(f.node, s)}|keyed by the glyph's current name", bool(okk), where(f, s), detail=T(t), nontrivial=False, message=f"{f.short}: the map is not keyed by the current glyph name")
    # names of skipped glyphs are reserved
    need(len(seen_names) == 1, f"cannot interpret {f.short}: seen")
    seen = seen_names.pop()
    loops = [n for n in A.body_nodes(f.node) if isinstance(n, ast.For) and any(s is x for s, t, v in st for x in ast.walk(n))]
    need(len(loops) == 1, f"cannot interpret {f.short}: loop")
    lp = loops[0]
    lv = A.target_names(lp.target)[0]
    skips = [s for s in lp.body if isinstance(s, ast.If) and any(isinstance(x, ast.Continue) for x in s.body)]
    sdefs = [d for d in prog.cfg(f).defs_of(seen) if d.kind in ("assign", "annassign")]
    for sk in skips:
        cond = sk.test
        ok = False
        why = "skipped names are not recorded"
        if len(sdefs) == 1 and isinstance(sdefs[0].value, ast.DictComp):
            dc = sdefs[0].value
            g = dc.generators[0]
            v = A.target_names(g.target)[0]
            same_iter = T(g.iter) == T(lp.iter) or (isinstance(g.iter, ast.Name) and isinstance(lp.iter, ast.Name) and g.iter.id == lp.iter.id)
            same_cond = len(g.ifs) == 1 and T(g.ifs[0]).replace(v, "\0") == T(cond).replace(lv, "\0")
            ok = same_iter and same_cond and T(dc.key) == v
            why = T(dc, 90)
        else:
            rec = [x for x in ast.walk(sk) if isinstance(x, ast.Assign) and isinstance(x.targets[0], ast.Subscript) and T(x.targets[0].value) == seen and T(x.targets[0].slice) == lv]
            # recording inside the skip branch only protects later glyphs: not accepted
            why = "names are only recorded when the loop reaches them (earlier production names can already have taken them)" if rec else why
        chk.ob(rule, f"{f.short}|names of glyphs that are not renamed are reserved before unique names are generated", ok, where(f, sk), detail=why,
               message=f"{f.short}: glyphs skipped by `{T(cond, 50)}` keep their names but these are not reserved in `{seen}`: a production name equal to one of them is handed "
                       f"out again (duplicate glyph names)")
    un = ix.get_method(PP, "_unique_name", own=True)
    name, seenp = un.params()[:2]
    cfg = prog.cfg(un)
    rets = A.returns_of(un.node)
    rec = [(s, t, v) for s, t, v in subscript_stores(un) if T(t.value) == seenp and T(t.slice) == name]
    ok = len(rets) == 1 and T(rets[0].value) == name
    if ok:
        doms = [s_ for s_, t, v in rec if cfg.dominates(cfg.node_of(s_), cfg.node_of(rets[0]))]
        # the name recorded is the name returned: same reaching definitions of the variable at both places
        ok = bool(doms) and any({id(d.binder) for d in cfg.reaching_defs(name, s_)} == {id(d.binder) for d in cfg.reaching_defs(name, rets[0])} for s_ in doms)
    chk.ob(rule, f"{un.short}|the returned name is recorded in seen", ok, where(un), detail="seen[name] = 1; return name", message="_unique_name returns a name without recording it: the same name can be handed out again")
    wl = [n for n in A.body_nodes(un.node) if isinstance(n, ast.While)]
    ok = len(wl) == 1 and isinstance(wl[0].test, ast.Compare) and isinstance(wl[0].test.ops[0], ast.In) and T(wl[0].test.comparators[0]) == seenp and name in T(wl[0].test.left)
    chk.ob(rule, f"{un.short}|suffix search continues while the candidate is taken", ok, where(un), detail=T(wl[0].test) if wl else "", message="_unique_name does not check its suffixed candidate against the names already taken")
    aug = [n for n in A.body_nodes(un.node) if isinstance(n, ast.AugAssign) and T(n.target) == name]
    ok = len(aug) == 1 and wl and T(aug[0].value) in T(wl[0].test.left) and any(o == "in" and l == name for o, l, r in facts(prog, un, aug[0]))
    chk.ob(rule, f"{un.short}|the suffix appended is the one that was found free", ok, where(un), detail=T(aug[0]) if aug else "", message="_unique_name appends a different suffix from the one it tested")
    chk.minimum(rule, 7)


# ----------------------------------------------------------------------------- R11.4
def r114(prog, chk):
    ix = prog.ix
    f = ix.get_method(PP, "process_glyph_names", own=True)
    p = f.params()[1]
    mi = f.module
    kg = _keep_var(prog, f)
    ks = [s for s in A.stmts_of(f.node) if isinstance(s, ast.Assign) and isinstance(s.targets[0], ast.Name) and s.targets[0].id == kg]
    ok = len(ks) == 2
    for s in ks:
        fs = facts(prog, f, s)
        none = any(o == "is" and l == p and r == "None" for o, l, r in fs)
        notnone = any(o == "isnot" and l == p and r == "None" for o, l, r in fs)
        if none:
            v = s.value
            ok = ok and isinstance(v, ast.Call) and T(v.func) == "self.ufo.lib.get" and T(v.args[0]) == "KEEP_GLYPH_NAMES" and A.is_const(v.args[1], True)
        elif notnone:
            ok = ok and A.is_const(s.value, True)
        else:
            ok = False
    chk.ob("R11.4", f"{f.short}|names kept unless the lib says otherwise and no argument was given", ok, where(f), detail="None: lib.get(KEEP_GLYPH_NAMES, True); given: True",
           message=f"{f.short}: the keep-glyph-names decision no longer follows 'argument given => keep, else lib key with default True'")
    us = [s for s in A.stmts_of(f.node) if isinstance(s, ast.Assign) and isinstance(s.targets[0], ast.Name) and s.targets[0].id == p]
    ok = len(us) == 1 and any(o == "is" and l == p and r == "None" for o, l, r in facts(prog, f, us[0]))
    if ok:
        v = us[0].value
        ok = isinstance(v, ast.Call) and T(v.func) == "self.ufo.lib.get" and T(v.args[0]) == "USE_PRODUCTION_NAMES" and isinstance(v.args[1], ast.BoolOp) and isinstance(v.args[1].op, ast.And)
        if ok:
            parts = {T(x) for x in v.args[1].values}
            ok = parts == {"not self.ufo.lib.get(GLYPHS_DONT_USE_PRODUCTION_NAMES)", "self._postscriptNames is not None"}
    chk.ob("R11.4", f"{f.short}|default: lib useProductionNames, else (not Glyphs' opt-out and postscriptNames present)", ok, where(f, us[0]) if us else where(f), detail=T(us[0].value, 120) if us else "",
           message=f"{f.short}: the default production-name policy changed")
    for const, val in (("KEEP_GLYPH_NAMES", "com.github.googlei18n.ufo2ft.keepGlyphNames"), ("USE_PRODUCTION_NAMES", "com.github.googlei18n.ufo2ft.useProductionNames"),
                       ("GLYPHS_DONT_USE_PRODUCTION_NAMES", "com.schriftgestaltung.Don't use Production Names")):
        d = mi.imports.get(const)
        cm = ix.get_module("ufo2ft.constants")
        try:
            got = ix.const_eval(cm, cm.constants[const])
        except Exception:
            got = None
        chk.ob("R11.4", f"lib key {const}", d == f"ufo2ft.constants.{const}" and got == val, "Lib/ufo2ft/constants.py", detail=str(got), nontrivial=False, message=f"lib key {const} is no longer {val!r}")
    init = ix.get_method(PP, "__init__", own=True)
    ok = any(isinstance(v, ast.Call) and T(v.func) == "ufo.lib.get" and A.is_const(v.args[0], "public.postscriptNames") for s, t, v in attr_stores(init, "_postscriptNames"))
    chk.ob("R11.4", f"{init.short}|names come from public.postscriptNames", ok, where(init), detail="ufo.lib.get('public.postscriptNames')", message="the PostScript name map is not read from public.postscriptNames")
    chk.minimum("R11.4", 6)


# ----------------------------------------------------------------------------- R11.5
def r115(prog, chk):
    ix = prog.ix
    f = ix.get_method(PP, "_build_production_name", own=True)
    # the naming rules may live in a helper method the entry point hands the glyph to: follow `return self.<helper>(glyph)`
    entry = f
    for _hop in range(3):
        if any("04X" in T(r.value) for r in A.returns_of(f.node) if r.value is not None):
            break
        nxt = None
        for r in A.returns_of(f.node):
            okr, _b = every_origin(prog, f, r.value, lambda x, ff: isinstance(x, ast.Call) and isinstance(x.func, ast.Attribute) and isinstance(x.func.value, ast.Name) and x.func.value.id == "self"
                                   and len(x.args) == 1 and isinstance(x.args[0], ast.Name) and x.args[0].id == ff.params()[1], allow_const=False) if r.value is not None else (False, None)
            need(okr, f"cannot interpret {entry.short}: `{T(r, 60)}` is neither a naming rule nor the answer of a helper given the glyph")
            for c in ast.walk(r.value):
                if isinstance(c, ast.Call) and isinstance(c.func, ast.Attribute) and T(c.func.value) == "self":
                    nxt = c.func.attr
            for d in (prog.reaching(f, r.value.id, r.value) if isinstance(r.value, ast.Name) else []):
                if d.value is not None:
                    for c in ast.walk(d.value):
                        if isinstance(c, ast.Call) and isinstance(c.func, ast.Attribute) and T(c.func.value) == "self":
                            nxt = c.func.attr
        need(nxt is not None, f"cannot interpret {entry.short}: no naming rule found")
        f = ix.get_method(PP, nxt)
    g = f.params()[1]
    rets = A.returns_of(f.node)
    # lib names win
    lib = [r for r in rets if any(o == "truthy" and l == "self._postscriptNames" for o, l, r_ in facts(prog, f, r))]
    # the value returned under "the lib has names": the looked-up name when it is non-empty, else the glyph's own name
    cases = []
    for r in lib:
        rf = set(facts(prog, f, r))
        if isinstance(r.value, ast.IfExp):
            arms = [(r.value.body, rf | set(atoms_of(r.value.test, True))), (r.value.orelse, rf | set(atoms_of(r.value.test, False)))]
        else:
            arms = [(r.value, rf)]
        for v, fs in arms:
            pn = v.id if isinstance(v, ast.Name) else None
            for v2, fs2 in branch_values(prog, f, v):
                cases.append((v2, fs | fs2, pn))
    looked = [(v, fs, pn) for v, fs, pn in cases if T(v) == f"self._postscriptNames.get({g}.name)"]
    own = [(v, fs, pn) for v, fs, pn in cases if T(v) == f"{g}.name"]
    ok = len(looked) == 1 and len(own) == 1 and len(cases) == 2 and looked[0][2] is not None
    if ok:
        pn = looked[0][2]
        ok = any(o == "truthy" and l == pn for o, l, r_ in looked[0][1]) and any(o == "falsy" and l == pn for o, l, r_ in own[0][1])
    chk.ob("R11.5", f"{f.short}|lib-supplied name wins when non-empty, else the glyph keeps its name", ok, where(f, lib[0]) if lib else where(f), detail=T(lib[0].value) if lib else "",
           message=f"{f.short}: with a public.postscriptNames map present, a glyph is not named by its (non-empty) entry / its own name")
    fm = [r for r in rets if isinstance(r.value, ast.Call) and isinstance(r.value.func, ast.Attribute) and r.value.func.attr == "format" and isinstance(r.value.func.value, ast.Constant) and "04X" in r.value.func.value.value]
    ok = len(fm) == 1 and fm[0].value.func.value.value == "{}{:04X}"
    if ok:
        a0 = fm[0].value.args[0]
        ok = isinstance(a0, ast.IfExp) and A.is_const(a0.body, "u") and A.is_const(a0.orelse, "uni") and isinstance(a0.test, ast.Compare) and isinstance(a0.test.ops[0], ast.Gt) and T(a0.test.comparators[0]) in ("65535", "0xFFFF")
        ok = ok and any(o == "isnot" and l == f"{g}.unicode" and r == "None" for o, l, r in facts(prog, f, fm[0]))
        uv = fm[0].value.args[1]
        ds = prog.reaching(f, uv.id, uv) if isinstance(uv, ast.Name) else []
        ok = ok and len(ds) == 1 and T(ds[0].value) == f"{g}.unicode" and T(a0.test.left) == uv.id
    chk.ob("R11.5", f"{f.short}|uniXXXX up to U+FFFF, uXXXXX above, at least four upper-case hex digits, whenever the glyph has a code point", ok, where(f, fm[0]) if fm else where(f), detail=T(fm[0].value, 90) if fm else "",
           message=f"{f.short}: the uni/u naming rule changed (threshold, digits, or the code point used)")
    lig = [r for r in rets if isinstance(r.value, ast.BinOp) and A.is_const(r.value.left, "uni")]
    ok = len(lig) == 1
    if ok:
        cs = [c for c in conds(prog, f, lig[0]) if isinstance(c.test, ast.Call) and A.callee_name(c.test) == "all" and "65535" in T(c.test)]
        ok = len(cs) == 1 and cs[0].polarity is True and "%04X" in T(lig[0].value)
    chk.ob("R11.5", f"{f.short}|uniXXXXYYYY ligature names only when every part is in the BMP", ok, where(f, lig[0]) if lig else where(f), detail=T(lig[0].value, 80) if lig else "",
           message=f"{f.short}: ligature production names are built from parts outside the BMP / not with %04X")
    last = rets[-1]
    chk.ob("R11.5", f"{f.short}|fallback is the glyph's own name", T(last.value) == f"{g}.name", where(f, last), detail=T(last.value), message=f"{f.short}: a glyph without any rule no longer keeps its name")
    chk.minimum("R11.5", 4)


# ----------------------------------------------------------------------------- R11.6
def r116(prog, chk):
    ix = prog.ix
    ci = ix.get_class(PP)
    ca = ix.class_attr(ci, "GLYPH_NAME_INVALID_CHARS")
    need(ca is not None and isinstance(ca[1], ast.Call) and A.callee_name(ca[1]) == "compile" and isinstance(ca[1].args[0], ast.Constant), "cannot interpret GLYPH_NAME_INVALID_CHARS")
    pat = ca[1].args[0].value
    import re._parser as sre  # regex AST, the pattern is not executed
    tree = sre.parse(pat)
    ok = len(tree) == 1 and str(tree[0][0]) == "IN"
    allowed = set()
    neg = False
    if ok:
        for op, av in tree[0][1]:
            if str(op) == "NEGATE":
                neg = True
            elif str(op) == "RANGE":
                allowed |= set(range(av[0], av[1] + 1))
            elif str(op) == "LITERAL":
                allowed.add(av)
            else:
                ok = False
    want = set(map(ord, "0123456789abcdefghijklmnopqrstuvwxyzABCDEFGHIJKLMNOPQRSTUVWXYZ_."))
    chk.ob("R11.6", "GLYPH_NAME_INVALID_CHARS removes exactly the characters outside [0-9A-Za-z_.]", ok and neg and allowed == want and not ca[1].args[1:], f"{ci.module.relpath}:{ca[1].lineno}", detail=pat,
           message=f"the invalid-character pattern `{pat}` no longer removes exactly the characters that are illegal in PostScript glyph names")
    ml = ix.class_attr(ci, "MAX_GLYPH_NAME_LENGTH")
    chk.ob("R11.6", "MAX_GLYPH_NAME_LENGTH = 63", ml is not None and A.is_const(ml[1], 63), f"{ci.module.relpath}:{ci.node.lineno}", detail=T(ml[1]) if ml else "", nontrivial=False, message="the glyph name length limit changed")
    chk.minimum("R11.6", 2)



# ----------------------------------------------------------------------------- R11.7
def r117(prog, chk):
    """Each variable font is post-processed against ITS OWN default source: inside compile_variable's per-font loop the UFO, the
    info and the glyph set handed to the post-processor are looked up per font (or the glyph set is None: the post-processor
    then takes the UFO) - never compiler-level state such as self.glyphSets / self.instantiator, which the loop over the
    interpolable sub-spaces overwrites and which describes the last sub-space only."""
    ix = prog.ix
    cv = ix.get_method("ufo2ft._compilers.baseCompiler.BaseInterpolatableCompiler", "compile_variable", own=True)
    calls = [c for c in calls_named(cv, "postprocess")]
    need(calls, f"cannot interpret {cv.short}: postprocess call")
    for c in calls:
        loops = [a for a in ix.ancestors(c) if isinstance(a, ast.For)]
        lv = set(A.target_names(loops[0].target)) if loops else set()
        okl = bool(loops)

        def per_font(e, depth=0):
            """e is None, a loop variable, or a lookup keyed by a loop variable (followed through local definitions)"""
            if depth > 5:
                return False
            if isinstance(e, ast.Constant):
                return e.value is None
            if any(isinstance(x, ast.Attribute) and isinstance(x.value, ast.Name) and x.value.id == "self" for x in ast.walk(e)):
                return False
            if isinstance(e, ast.Name):
                if e.id in lv:
                    return True
                ds = prog.reaching(cv, e.id, e)
                return bool(ds) and all(d.value is not None and per_font(d.value, depth + 1) and any(isinstance(x, ast.Name) and (x.id in lv or per_font(x, depth + 1)) for x in ast.walk(d.value)) for d in ds)
            if isinstance(e, ast.Subscript):
                return any(isinstance(x, ast.Name) and x.id in lv for x in ast.walk(e.slice)) or per_font(e.value, depth + 1)
            return any(isinstance(x, ast.Name) and x.id in lv for x in ast.walk(e))
        args = list(c.args[1:]) + [k.value for k in c.keywords]
        bad = [T(a, 40) for a in args if not per_font(a)]
        chk.ob("R11.7", f"{cv.short}|each variable font is post-processed with its own UFO / info / glyph set", okl and not bad, where(cv, c), detail=T(c, 90),
               message=f"{cv.short}: the post-processor of a variable font is handed {bad}, which is not looked up for that font: with several interpolable sub-spaces the production "
                       f"names (and everything else the post-processor derives from the glyph set) come from the last sub-space's default master")
    chk.minimum("R11.7", 1)


# ----------------------------------------------------------------------------- R11.8
def r118(prog, chk):
    ix = prog.ix
    pr = ix.get_method(PP, "process", own=True)
    calls = [c for c in calls_named(pr, "process_glyph_names")]
    need(len(calls) == 1, f"cannot interpret {pr.short}: process_glyph_names call")
    a = A.arg_at(calls[0], 0, "useProductionNames")
    ok = isinstance(a, ast.Name) and a.id in pr.params() and all(d.kind == "param" for d in prog.reaching(pr, a.id, a)) \
        and not [g for g in may_conds(prog, pr, calls[0]) if g.kind in ("if", "boolop", "ifexp", "while")]
    chk.ob("R11.8", f"{pr.short}|process_glyph_names gets the caller's useProductionNames, unconditionally", ok, where(pr, calls[0]), detail=T(calls[0], 60),
           message=f"{pr.short}: the useProductionNames argument is rewritten (or the renaming step skipped) before process_glyph_names: an explicit request for production names "
                   f"no longer produces them")
    pg = ix.get_method(PP, "process_glyph_names", own=True)
    pname = pg.params()[1]
    bad = []
    for n in A.body_nodes(pg.node):
        if isinstance(n, ast.Assign) and any(isinstance(t, ast.Name) and t.id == pname for t in n.targets):
            fs = facts(prog, pg, n)
            if not any(o == "is" and l == pname and r == "None" for o, l, r in fs):
                bad.append(n)
    chk.ob("R11.8", f"{pg.short}|the lib keys only fill in an absent argument", not bad, where(pg, bad[0]) if bad else where(pg), detail=f"assignments of {pname} under `{pname} is None`",
           message=f"{pg.short}: `{T(bad[0], 60) if bad else ''}` overrides an explicit useProductionNames")
    chk.minimum("R11.8", 2)


# ----------------------------------------------------------------------------- R11.9
def r119(prog, chk):
    ix = prog.ix
    f = ix.get_method("ufo2ft._compilers.baseCompiler.BaseInterpolatableCompiler", "compile_one", own=True)
    pp = [c for c in calls_named(f, "postprocess")]
    ok = len(pp) == 1 and not [g for g in may_conds(prog, f, pp[0]) if g.kind in ("if", "boolop", "ifexp", "while")]
    if ok:
        rets = A.returns_of(f.node)
        st = ix.enclosing_stmt(pp[0])
        tv = st.targets[0].id if isinstance(st, ast.Assign) and isinstance(st.targets[0], ast.Name) else None
        ok = tv is not None and len(rets) == 1 and T(rets[0].value) == tv and pp[0].args and T(pp[0].args[0]) == tv
    chk.ob("R11.9", f"{f.short}|every master is post-processed, whatever its layer", ok, where(f, pp[0]) if pp else where(f), detail="ttf = self.postprocess(ttf, ufo, glyphSet); return ttf",
           message=f"{f.short}: a master can be returned without going through self.postprocess (or only under a condition on the layer): with production names on, full masters are "
                   f"renamed and sparse masters keep their source names - the masters of one family no longer agree on glyph names")
    chk.minimum("R11.9", 1)


# ----------------------------------------------------------------------------- R11.10
_MUTATORS = {"add", "append", "extend", "update", "setdefault", "pop", "popitem", "clear", "remove", "discard", "insert", "__setitem__"}


def r1110(prog, chk):
    """Names of one font do not depend on fonts processed earlier in the same process: the post-processor keeps no
    mutable container on the class (shared by all instances) that its methods write to."""
    ix = prog.ix
    n = 0
    for ci in ix.classes.values():
        if not ci.qname.startswith("ufo2ft.postProcessor"):
            continue
        shared = {}
        for st in ci.node.body:
            if isinstance(st, (ast.Assign, ast.AnnAssign)) and st.value is not None:
                v = st.value
                if isinstance(v, (ast.Dict, ast.List, ast.Set, ast.DictComp, ast.ListComp, ast.SetComp)) or \
                        (isinstance(v, ast.Call) and A.callee_name(v) in ("dict", "list", "set", "defaultdict", "OrderedDict", "Counter", "WeakKeyDictionary", "WeakValueDictionary")):
                    for t in (st.targets if isinstance(st, ast.Assign) else [st.target]):
                        if isinstance(t, ast.Name):
                            shared[t.id] = st
        for name, st in sorted(shared.items()):
            rebound = any(isinstance(t.value, ast.Name) and t.value.id == "self" for m in ci.methods.values() for _s, t, _v in attr_stores(m, name))
            writes = []
            for m in ci.methods.values():
                for node in ast.walk(m.node):
                    tgt = None
                    if isinstance(node, ast.Subscript) and isinstance(node.ctx, (ast.Store, ast.Del)):
                        tgt = node.value
                    elif isinstance(node, ast.Call) and isinstance(node.func, ast.Attribute) and node.func.attr in _MUTATORS:
                        tgt = node.func.value
                    elif isinstance(node, ast.AugAssign):
                        tgt = node.target
                    if isinstance(tgt, ast.Attribute) and tgt.attr == name and isinstance(tgt.value, ast.Name) and tgt.value.id in ("self", "cls", ci.name) \
                            or (isinstance(tgt, ast.Attribute) and tgt.attr == name and T(tgt.value) in ("type(self)", "self.__class__")):
                        writes.append((m, node))
            n += 1
            ok = not writes or rebound
            chk.ob("R11.10", f"{ci.name}.{name}|class-level container is never written by the methods", ok, where(writes[0][0], writes[0][1]) if writes else f"{ci.module.relpath}:{st.lineno}",
                   detail=f"{len(writes)} write(s)", message=f"{ci.name}.{name} is a container on the class, shared by every {ci.name} of the process, and `{T(writes[0][1], 60) if writes else ''}` writes to it: "
                   f"what one font put there (production names, by glyph name) is handed to the next font compiled in the same process")
    chk.minimum("R11.10", 1)


MUTANTS = [
    M("production names memoised in a class-level dict (seeded C11m)", "ufo2ft/postProcessor.py", "PostProcessor.__init__",
      "self._postscriptNames = ufo.lib.get('public.postscriptNames')", "self._postscriptNames = ufo.lib.get('public.postscriptNames')\nself.DEFAULT_SUBROUTINIZER_FOR_CFF_VERSION[id(ufo)] = None", rule="R11.10"),
    M("sparse layer masters skip post-processing (seeded C11l)", "ufo2ft/_compilers/baseCompiler.py", "BaseInterpolatableCompiler.compile_one",
      "ttf = self.postprocess(ttf, ufo, glyphSet)", "if layerName is None:\n    ttf = self.postprocess(ttf, ufo, glyphSet)", rule="R11.9"),
    M("explicit useProductionNames ignored when the lib says keepGlyphNames=False (seeded C11k)", "ufo2ft/postProcessor.py", "PostProcessor.process",
      "self.process_glyph_names(useProductionNames)", "if useProductionNames is not None and (not self.ufo.lib.get(KEEP_GLYPH_NAMES, True)):\n    useProductionNames = None\nself.process_glyph_names(useProductionNames)", rule="R11.8"),
    M("intermediate save of the renaming reload does not recalculate bounding boxes (seeded C11i)", "ufo2ft/postProcessor.py", "_reloadFont",
      "font.save(stream)", "recalcBBoxes, font.recalcBBoxes = (font.recalcBBoxes, False)\nfont.save(stream)\nfont.recalcBBoxes = recalcBBoxes", rule="R11.1"),
    M("reload re-opens the font with recalcBBoxes off", "ufo2ft/postProcessor.py", "_reloadFont",
      "return TTFont(stream, cfg=font.cfg)", "return TTFont(stream, cfg=font.cfg, recalcBBoxes=False)", rule="R11.1"),
    M("variable fonts post-processed with the last sub-space's glyph set (seeded C11g)", "ufo2ft/_compilers/baseCompiler.py", "BaseInterpolatableCompiler.compile_variable",
      "self.postprocess(varfont, ufo, glyphSet=None, info=info)", "self.postprocess(varfont, ufo, glyphSet=self.glyphSets[self.instantiator.default_source_idx], info=info)", rule="R11.7"),
    M("CFF2 re-keyed even when not yet decompiled (seeded C11d shape)", "ufo2ft/postProcessor.py", "PostProcessor.rename_glyphs",
      "cff_tag == 'CFF ' or (cff_tag == 'CFF2' and otf.isLoaded(cff_tag))", "cff_tag is not None", rule="R11.2"),
    M("loaded CFF2 no longer re-keyed", "ufo2ft/postProcessor.py", "PostProcessor.rename_glyphs",
      "cff_tag == 'CFF ' or (cff_tag == 'CFF2' and otf.isLoaded(cff_tag))", "cff_tag == 'CFF '", rule="R11.2"),
    M("rename without reloading first", "ufo2ft/postProcessor.py", "PostProcessor.process_glyph_names",
      "self.otf = _reloadFont(self.otf)\nself._rename_glyphs_from_ufo()", "self._rename_glyphs_from_ufo()\nself.otf = _reloadFont(self.otf)", rule="R11.1"),
    M("names dropped without reload", "ufo2ft/postProcessor.py", "PostProcessor.process_glyph_names",
      "self.set_post_table_format(self.otf, 3.0)\nself.otf = _reloadFont(self.otf)", "self.set_post_table_format(self.otf, 3.0)", rule="R11.1"),
    M("renaming although production names are off", "ufo2ft/postProcessor.py", "PostProcessor.process_glyph_names",
      "if useProductionNames:\n    logger.info('Renaming glyphs to final production names')\n    self.otf = _reloadFont(self.otf)\n    self._rename_glyphs_from_ufo()",
      "logger.info('Renaming glyphs to final production names')\nself.otf = _reloadFont(self.otf)\nself._rename_glyphs_from_ufo()", rule="R11.1"),
    M("renamed glyphs sorted", "ufo2ft/postProcessor.py", "PostProcessor.rename_glyphs",
      "[rename_map.get(n, n) for n in otf.getGlyphOrder()]", "sorted((rename_map.get(n, n) for n in otf.getGlyphOrder()))", rule="R11.2"),
    M("charset not renamed", "ufo2ft/postProcessor.py", "PostProcessor.rename_glyphs",
      "cff.charset = [rename_map.get(n, n) for n in cff.charset]", "pass", rule="R11.2"),
    M("charstrings keyed by unmapped names when missing", "ufo2ft/postProcessor.py", "PostProcessor.rename_glyphs",
      "{rename_map.get(n, n): v for n, v in char_strings.items()}", "{rename_map[n]: v for n, v in char_strings.items() if n in rename_map}", rule="R11.2"),
    M("post names from the old order", "ufo2ft/postProcessor.py", "PostProcessor.rename_glyphs",
      "[g for g in newGlyphOrder if g not in standardGlyphOrder]", "[g for g in otf.getGlyphOrder()]", rule="R11.2"),
    M("names stored without uniqueness", "ufo2ft/postProcessor.py", "PostProcessor._build_production_names",
      "rename_map[name] = self._unique_name(valid_name, seen)", "rename_map[name] = valid_name", rule="R11.3"),
    M("original name kept unfiltered", "ufo2ft/postProcessor.py", "PostProcessor._build_production_names",
      "if name != prod_name:\n    valid_name = self.GLYPH_NAME_INVALID_CHARS.sub('', prod_name)\n    if len(valid_name) > self.MAX_GLYPH_NAME_LENGTH:\n        valid_name = self.GLYPH_NAME_INVALID_CHARS.sub('', name)\nelse:\n    valid_name = self.GLYPH_NAME_INVALID_CHARS.sub('', name)",
      "if name != prod_name:\n    valid_name = self.GLYPH_NAME_INVALID_CHARS.sub('', prod_name)\n    if len(valid_name) > self.MAX_GLYPH_NAME_LENGTH:\n        valid_name = self.GLYPH_NAME_INVALID_CHARS.sub('', name)\nelse:\n    valid_name = name", rule="R11.3"),
    M("kept names no longer reserved (un-fix f6ec7ac)", "ufo2ft/postProcessor.py", "PostProcessor._build_production_names",
      "seen = {name: 1 for name in glyphOrder if name not in self.glyphSet}", "seen = {}", rule="R11.3"),
    M("kept names reserved only when reached", "ufo2ft/postProcessor.py", "PostProcessor._build_production_names",
      "seen = {name: 1 for name in glyphOrder if name not in self.glyphSet}", "seen = {}\nfor name in glyphOrder[:0]:\n    seen[name] = 1", rule="R11.3"),
    M("unique name not recorded", "ufo2ft/postProcessor.py", "PostProcessor._unique_name", "seen[name] = 1\nreturn name", "return name", rule="R11.3"),
    M("suffix search stops at the first candidate", "ufo2ft/postProcessor.py", "PostProcessor._unique_name",
      "while name + '.%d' % n in seen:\n    n += 1", "pass", rule="R11.3"),
    M("explicit argument can drop names", "ufo2ft/postProcessor.py", "PostProcessor.process_glyph_names",
      "else:\n    keepGlyphNames = True", "", rule="R11.4", kind="skip"),
    M("default ignores the Glyphs opt-out", "ufo2ft/postProcessor.py", "PostProcessor.process_glyph_names",
      "not self.ufo.lib.get(GLYPHS_DONT_USE_PRODUCTION_NAMES) and self._postscriptNames is not None", "self._postscriptNames is not None", rule="R11.4"),
    M("keepGlyphNames defaults to False", "ufo2ft/postProcessor.py", "PostProcessor.process_glyph_names",
      "self.ufo.lib.get(KEEP_GLYPH_NAMES, True)", "self.ufo.lib.get(KEEP_GLYPH_NAMES, False)", rule="R11.4"),
    M("uni used above the BMP", "ufo2ft/postProcessor.py", "PostProcessor._build_production_name",
      "'u' if unicode_val > 65535 else 'uni'", "'uni'", rule="R11.5"),
    M("lower-case hex", "ufo2ft/postProcessor.py", "PostProcessor._build_production_name", "'{}{:04X}'", "'{}{:04x}'", rule="R11.5"),
    M("empty lib name accepted", "ufo2ft/postProcessor.py", "PostProcessor._build_production_name",
      "production_name if production_name else glyph.name", "production_name if production_name is not None else glyph.name", rule="R11.5"),
    M("hyphen allowed in glyph names", "ufo2ft/postProcessor.py", "PostProcessor", "re.compile('[^0-9a-zA-Z_.]')", "re.compile('[^0-9a-zA-Z_.-]')", rule="R11.6"),
    # equivalents
    M("pattern written with escapes", "ufo2ft/postProcessor.py", "PostProcessor", "re.compile('[^0-9a-zA-Z_.]')", "re.compile('[^a-zA-Z0-9._]')", kind="equiv"),
]
MUTANTS = [m for m in MUTANTS if m.kind != "skip"]
