"""C17 - automatic features only add to the user's feature file (structural clauses)."""

from __future__ import annotations

import ast
from typing import Dict, List, Optional, Set, Tuple

from ..core import astutil as A
from ..core.index import AnalysisError, ClassInfo, FuncInfo, external_module
from ..selftest import M
from .common import may_conds, T, attr_stores, calls_named, conds, every_origin, facts, need, subscript_stores, where

BASEW = "ufo2ft.featureWriters.baseFeatureWriter.BaseFeatureWriter"
FC = "ufo2ft.featureCompiler.FeatureCompiler"
WRITER_MODS = ("ufo2ft.featureWriters", "ufo2ft.featureCompiler")
REMOVERS = {"remove", "pop", "clear", "reverse", "sort"}


def _in_scope(fi: FuncInfo) -> bool:
    return fi.module.name.startswith(WRITER_MODS[0]) or fi.module.name == WRITER_MODS[1]


def run(prog, chk):
    chk.decided += [
        "the parsed feature file is only ever added to: every removal from / reassignment of a statement list in the writers package is one of the reviewed marker sites of _insert, each with its linked obligation (only the marker comment is deleted; a removed block holds only comments; the split keeps the tail; reassignments are concatenations containing the old list in order) (R17.1)",
        "a writer creates a feature block only for a tag in its todo set; skip mode removes existing marker-less tags from todo; shouldContinue overrides defer to the base test; _write only runs under shouldContinue (R17.2)",
        "writers that produce GSUB run before the others (R17.3)",
        "shipped writers declare GPOS / GDEF and build no substitution statement (R17.4)",
        "user features are parsed once, every writer works on that one object, the compiled source is its serialisation; without writers the user's text is used as is (R17.5)",
        "insert markers are only honoured in top-level feature blocks, first marker per tag (R17.6)",
        "include() statements resolve against the parent directory of the UFO with and without feature writers (parseLayoutFeatures' includeDir; the file name buildTables hands to feaLib) (R17.7)",
        "generated glyph classes never take a class name the feature file already defines: every writer hands its feature file to makeGlyphClassDefinitions, which reserves the existing names (R17.8)",
    ]
    chk.decided += ["an insertion marker is a comment that *is* the marker: the pattern is matched anchored at the start of the comment (re.match / fullmatch), and the marker pattern itself starts "
                    "with the comment sign - a user's comment that merely mentions the marker text is left alone (R17.11)"]
    chk.decided += ["when a generated mark class collides with a class of that name the user already wrote (same glyph, other anchor), every later mark of that anchor goes to the renamed class too: "
                    "the class name handed to _defineMarkClass follows the class the previous definition landed in, so the user's class is never extended (R17.12)"]
    chk.decided += ["feature-writer objects keep no per-font state outside self.context (no memoising decorators, no attributes written outside __init__): a writer object reused for a second feature file must not remember the first one's blocks (R17.13 = R08.7)"]
    chk.not_decided += ["index arithmetic of marker placement", "GSUB byte identity", "feaLib's asFea() round trip"]
    chk.decided += ["a generated feature is inserted as its own top-level block; a user's block only ever loses statements in _insert (R17.9, shared with C20)"]
    chk.decided += ["what the user's GDEF table defines (glyph classes; ligature carets by position or by index - classes read from fontTools) is not generated again (R17.10)"]
    chk.guard(r171, prog, chk)
    chk.guard(r172, prog, chk)
    chk.guard(r173, prog, chk)
    chk.guard(r174, prog, chk)
    chk.guard(r175, prog, chk)
    chk.guard(r176, prog, chk)
    chk.guard(r177, prog, chk)
    chk.guard(r178, prog, chk)
    chk.guard(check_generated_blocks_top_level, prog, chk, "R17.9")
    chk.guard(r1710, prog, chk)
    chk.guard(r1711, prog, chk)
    chk.guard(r1712, prog, chk)
    from .c08 import r087
    chk.guard(r087, prog, chk, "R17.13")


# ----------------------------------------------------------------------------- R17.1
def _fresh_receiver(prog, fi: FuncInfo, e: ast.AST) -> bool:
    """e is a local bound to an object constructed in this function."""
    if isinstance(e, ast.Name):
        ds = prog.reaching(fi, e.id, e)
        return bool(ds) and all(isinstance(d.value, ast.Call) and d.element()[1] is None and (A.callee_name(d.value)[:1].isupper() or A.callee_name(d.value) in ("list", "dict")) for d in ds)
    return False


def r171(prog, chk):
    ix = prog.ix
    ins = ix.get_method(BASEW, "_insert", own=True)
    events = []
    for fi in ix.functions.values():
        if not _in_scope(fi):
            continue
        for n in A.body_nodes(fi.node):
            # statement-list aliases: names bound to <x>.statements
            def is_stmts(e):
                if isinstance(e, ast.Attribute) and e.attr == "statements":
                    return e.value
                if isinstance(e, ast.Name):
                    for d in prog.reaching(fi, e.id, e):
                        v, how = d.element()
                        if how is None and isinstance(v, ast.Attribute) and v.attr == "statements":
                            return v.value
                        if d.kind == "assign" and isinstance(d.binder, ast.Assign) and any(isinstance(t, ast.Attribute) and t.attr == "statements" for t in d.binder.targets):
                            return [t for t in d.binder.targets if isinstance(t, ast.Attribute)][0].value
                return None
            if isinstance(n, ast.Delete):
                for t in n.targets:
                    if isinstance(t, ast.Subscript) and is_stmts(t.value) is not None:
                        events.append((fi, n, "del", is_stmts(t.value)))
            elif isinstance(n, ast.Call) and isinstance(n.func, ast.Attribute) and n.func.attr in REMOVERS and is_stmts(n.func.value) is not None:
                events.append((fi, n, n.func.attr, is_stmts(n.func.value)))
            elif isinstance(n, ast.Assign):
                for t in n.targets:
                    if isinstance(t, ast.Attribute) and t.attr == "statements":
                        events.append((fi, n, "assign", t.value))
                    elif isinstance(t, ast.Subscript) and is_stmts(t.value) is not None:
                        events.append((fi, n, "setitem", is_stmts(t.value)))
    need(len(events) >= 5, f"expected >= 5 statement-list removal / reassignment sites, found {len(events)}")
    for fi, n, kind, owner in events:
        k = f"{fi.short}|{A.keytext(fi.node, n)[:80]}"
        if kind == "assign" and _fresh_receiver(prog, fi, owner):
            chk.ob("R17.1", k, True, where(fi, n), detail=f"{kind}: `{T(owner)}` is a block created in this function", nontrivial=False)
            continue
        if fi is not ins:
            chk.ob("R17.1", k, False, where(fi, n),
                   message=f"{fi.short}: `{T(n, 70)}` removes or replaces statements of a block that can belong to the user's feature file (not one of the reviewed marker sites of _insert)")
            continue
        ok, why = _insert_site_ok(prog, ins, n, kind, owner)
        chk.ob("R17.1", k, ok, where(fi, n), detail=why,
               message=f"{fi.short}: `{T(n, 70)}` - {why}: statements of the user's feature file can be lost or reordered")
    chk.minimum("R17.1", 6)


def _insert_site_ok(prog, ins: FuncInfo, n: ast.AST, kind: str, owner: ast.AST) -> Tuple[bool, str]:
    ix = prog.ix
    stmts_param = ins.params()[1]  # feaFile

    def def_of(name_node):
        ds = prog.reaching(ins, name_node.id, name_node)
        return ds[0] if len(ds) == 1 else None

    if kind == "del":
        # del block.statements[markerIndex] ; markerIndex = block.statements.index(comment) ; (block, comment) = insertComments[tag]
        sub = n.targets[0]
        idx = sub.slice
        d = def_of(idx) if isinstance(idx, ast.Name) else None
        ok = d is not None and isinstance(d.value, ast.Call) and A.callee_name(d.value) == "index" and T(d.value.func.value) == T(sub.value)
        if ok:
            cm = d.value.args[0]
            dc = def_of(cm) if isinstance(cm, ast.Name) else None
            ok = dc is not None and isinstance(dc.value, ast.Subscript) and "insertComments" in T(dc.value.value) and A.target_names(dc.target)[-1] == cm.id and A.target_names(dc.target)[0] == T(owner)
        return ok, "deletes exactly the insert-marker comment of the marked block" if ok else "the deleted statement is not provably the insert-marker comment"
    if kind == "remove":
        fs = facts(prog, ins, n)
        flags = [l for o, l, r in fs if o == "truthy"]
        okflags = []
        for fl in flags:
            nm = [x for x in A.body_nodes(ins.node) if isinstance(x, ast.Name) and x.id == fl and isinstance(x.ctx, ast.Load)]
            if not nm:
                continue
            d = def_of(nm[0])
            if d is not None and isinstance(d.value, ast.Call) and A.callee_name(d.value) == "all" and "isinstance" in T(d.value) and "Comment" in T(d.value):
                sl = [x for x in ast.walk(d.value) if isinstance(x, ast.Subscript) and isinstance(x.slice, ast.Slice)]
                if sl:
                    # the slice bound is the marker's position as the list stands when the test runs: once the marker has
                    # been deleted, what followed it starts at markerIndex; before that, at markerIndex + 1
                    dels = [x for x in A.stmts_of(ins.node) if isinstance(x, ast.Delete) and isinstance(x.targets[0], ast.Subscript) and T(x.targets[0].value) == T(sl[0].value)]
                    bound_ok = False
                    if len(dels) == 1 and isinstance(dels[0].targets[0].slice, ast.Name):
                        mi = dels[0].targets[0].slice.id
                        after_del = dels[0].lineno < getattr(d.binder, "lineno", 0)
                        lo, up = sl[0].slice.lower, sl[0].slice.upper
                        if lo is None:
                            bound_ok = up is not None and T(up) == mi
                        elif up is None:
                            bound_ok = T(lo) == mi or (not after_del and T(lo) == f"{mi} + 1")  # before the deletion the marker itself, a comment, may be included
                    if bound_ok:
                        okflags.append((sl[0].slice.lower is None, sl[0].slice.upper is None))
        ok = (True, False) in okflags and (False, True) in okflags and T(n.args[0]) == T(_block_name(prog, ins))
        return ok, "removes the marked block only when everything before and after the marker is a comment" if ok else "a block is removed without both only-comments tests"
    if kind == "assign":
        tgt = [t for t in n.targets if isinstance(t, ast.Attribute)][0]
        v = n.value
        if T(tgt.value) == stmts_param:
            # concatenation that contains the old list (split at one index) in order
            parts = []

            def flat(e):
                if isinstance(e, ast.BinOp) and isinstance(e.op, ast.Add):
                    flat(e.left)
                    flat(e.right)
                else:
                    parts.append(e)
            flat(v)
            alias = [t.id for t in n.targets if isinstance(t, ast.Name)]
            old = [p for p in parts if (isinstance(p, ast.Name) and p.id in alias) or (isinstance(p, ast.Subscript) and isinstance(p.value, ast.Name) and p.value.id in alias)]
            if len(old) == 1 and isinstance(old[0], ast.Name):
                return True, "new statements are put in front of the unchanged old list"
            if len(old) == 2 and all(isinstance(p, ast.Subscript) and isinstance(p.slice, ast.Slice) for p in old):
                a, b = old
                ok = a.slice.lower is None and b.slice.upper is None and T(a.slice.upper) == T(b.slice.lower) and parts.index(a) < parts.index(b)
                return ok, "old list split at one index with the lookups in between" if ok else "the old list is not kept whole and in order"
            return False, "the reassigned list does not contain the old statements"
        # block.statements = block.statements[:markerIndex]  (the tail went to afterBlock first)
        ok = isinstance(v, ast.Subscript) and T(v.value) == T(tgt) and isinstance(v.slice, ast.Slice) and v.slice.lower is None
        if ok:
            cut = T(v.slice.upper)
            body = ix.parent(n).body if hasattr(ix.parent(n), "body") else []
            sib = [s for s in (getattr(ix.parent(n), "orelse", []) or []) + list(getattr(ix.parent(n), "body", []))]
            tails = [s for s in sib if isinstance(s, ast.Assign) and isinstance(s.value, ast.Subscript) and T(s.value.value) == T(tgt) and isinstance(s.value.slice, ast.Slice)
                     and T(s.value.slice.lower) == cut and s.value.slice.upper is None and s is not n]
            ok = len(tails) == 1 and sib.index(tails[0]) < sib.index(n)
            if ok:
                nb = tails[0].targets[0].value
                inserted = [s for s in sib if isinstance(s, ast.Expr) and isinstance(s.value, ast.Call) and A.callee_name(s.value) == "insert" and T(s.value.args[1]) == T(nb)]
                ok = len(inserted) == 1
        return ok, "the cut-off tail was first moved into a new block that is inserted right after" if ok else "statements after the marker are dropped"
    return False, f"unreviewed operation ({kind})"


def _block_name(prog, ins: FuncInfo) -> ast.AST:
    for s in A.stmts_of(ins.node):
        if isinstance(s, ast.Assign) and isinstance(s.targets[0], ast.Tuple) and isinstance(s.value, ast.Subscript) and "insertComments" in T(s.value.value):
            return s.targets[0].elts[0]
    raise AnalysisError("cannot interpret _insert: (block, comment) = insertComments[...]")


# ----------------------------------------------------------------------------- R17.2
def r172(prog, chk):
    ix = prog.ix
    sc = ix.get_method(BASEW, "setContext", own=True)
    du = [c for c in calls_named(sc, "difference_update")]
    if len(du) != 2:
        chk.ob("R17.2", f"{sc.short}|skip mode: todo = features - (existing tags without insert marker)", False, where(sc),
               message=f"{sc.short}: in skip mode existing features are no longer subtracted from todo (or marked ones no longer kept): features the user wrote are generated again")
        du = []
    t_upd = [c for c in du if isinstance(c.args[0], ast.Name)]
    ex_upd = [c for c in du if not isinstance(c.args[0], ast.Name)]
    ok = len(t_upd) == 1 and len(ex_upd) == 1
    todo = "?"
    if ok:
        todo, existing = T(t_upd[0].func.value), T(t_upd[0].args[0])
        ok = T(ex_upd[0].func.value) == existing and "insertComments" in T(ex_upd[0].args[0]) and any(o == "eq" and l == "self.mode" and r == "'skip'" for o, l, r in facts(prog, sc, t_upd[0]))
        ds = prog.reaching(sc, existing, t_upd[0].args[0])
        ok = ok and any(isinstance(d.value, ast.Call) and A.callee_name(d.value) == "findFeatureTags" and T(d.value.args[0]) == sc.params()[2] for d in ds)
        tds = prog.cfg(sc).defs_of(todo)
        ok = ok and any(d.kind == "assign" and T(d.value) == "set(self.features)" for d in tds)
        cfg = prog.cfg(sc)
        ok = ok and cfg.exists_path(cfg.node_of(ex_upd[0]), [cfg.node_of(t_upd[0])])
    if du:
        chk.ob("R17.2", f"{sc.short}|skip mode: todo = features - (existing tags without insert marker)", ok, where(sc), detail="existing.difference_update(insertComments.keys()); todo.difference_update(existing)",
               message=f"{sc.short}: in skip mode a feature the user already wrote (without marker) stays in todo (it would be generated again), or marked features are dropped from todo")
    ns = [c for c in A.body_nodes(sc.node) if isinstance(c, ast.Call) and A.callee_name(c) == "SimpleNamespace"]
    ok = len(ns) == 1 and (todo == "?" or T(A.kwarg(ns[0], "todo")) == todo) and T(A.kwarg(ns[0], "feaFile")) == sc.params()[2]
    chk.ob("R17.2", f"{sc.short}|context.todo is that set; context.feaFile is the object handed in", ok, where(sc), detail="SimpleNamespace(..., feaFile=feaFile, todo=todo, ...)", nontrivial=False, message=f"{sc.short}: context.todo / feaFile are something else")
    # base shouldContinue and overrides
    bs = ix.get_method(BASEW, "shouldContinue", own=True)
    rf = [r for r in A.returns_of(bs.node) if A.is_const(r.value, False)]
    ok = len(rf) == 1 and any(o == "falsy" and l == "self.context.todo" for o, l, r in facts(prog, bs, rf[0]))
    chk.ob("R17.2", f"{bs.short}|nothing to do -> False", ok, where(bs), detail="if not self.context.todo: return False", message=f"{bs.short} continues with an empty todo set")
    for m in ix.overriders(ix.get_class(BASEW), "shouldContinue"):
        if m.cls.qname == BASEW:
            continue
        rets = A.returns_of(m.node)
        okm = bool(rets) and all(A.is_const(r.value, False) or (isinstance(r.value, ast.Call) and T(r.value.func) == "super().shouldContinue") for r in rets) and any(isinstance(r.value, ast.Call) for r in rets)
        chk.ob("R17.2", f"{m.short}|continue path defers to the base test", okm, where(m), detail="return super().shouldContinue()",
               message=f"{m.short} can return True without consulting the todo set: features the user already wrote are generated again")
    wr = ix.get_method(BASEW, "write", own=True)
    w = [c for c in calls_named(wr, "_write")]
    ok = len(w) == 1 and any(o == "truthy" and l == "self.shouldContinue()" for o, l, r in facts(prog, wr, w[0]))
    cfg = prog.cfg(wr)
    scs = [c for c in calls_named(wr, "setContext")]
    ok = ok and len(scs) == 1 and cfg.dominates(cfg.node_of(scs[0]), cfg.node_of(w[0]))
    chk.ob("R17.2", f"{wr.short}|_write only after setContext and under shouldContinue()", ok, where(wr), detail="self.setContext(...); if self.shouldContinue(): return self._write()",
           message=f"{wr.short}: _write can run without the todo test")
    # every FeatureBlock(tag) is gated by tag in todo (locally or at every call site), or the writer has one feature only
    n = 0
    for fi in ix.functions.values():
        if not fi.module.name.startswith(WRITER_MODS[0]) or fi.module.name.endswith(".ast"):
            continue
        for c in [c for c in A.body_nodes(fi.node) if isinstance(c, ast.Call) and A.callee_name(c) == "FeatureBlock"]:
            tag = c.args[0] if c.args else None
            if fi.short.endswith("._insert"):
                continue  # afterBlock: the second half of an existing user block
            n += 1
            ok, why = _gated(prog, fi, c, tag, 0)
            chk.ob("R17.2", f"{fi.short}|FeatureBlock({T(tag)})", ok, where(fi, c), detail=why,
                   message=f"{fi.short}: a `{T(tag)}` feature block is created without a `{T(tag)} in todo` test on the way: a feature the user already wrote is generated again")
    need(n >= 8, f"expected >= 8 FeatureBlock constructions, found {n}")
    chk.minimum("R17.2", 14)


def _todo_fact(prog, fi, node, tag) -> bool:
    for o, l, r in facts(prog, fi, node):
        if o == "in" and "todo" in r and (l == T(tag) or (isinstance(tag, ast.Name) and l == tag.id)):
            return True
    return False


def _gated(prog, fi: FuncInfo, node: ast.AST, tag: ast.AST, depth: int) -> Tuple[bool, str]:
    ix = prog.ix
    if _todo_fact(prog, fi, node, tag):
        return True, f"under `{T(tag)} in todo`"
    if depth > 2:
        return False, "no todo test found"
    # single-feature writer: _write is only reached under shouldContinue (todo non-empty == that feature)
    cls = fi.cls
    if cls is not None:
        fa = ix.class_attr(cls, "features")
        try:
            fv = ix.const_eval(fa[0].module, fa[1], fa[0]) if fa else None
        except Exception:
            fv = None
        if fv is not None and len(fv) == 1 and isinstance(tag, ast.Constant) and tag.value in fv:
            return True, f"{cls.name} has the single feature {tag.value!r}: _write only runs when it is in todo"
    # all call sites of this function
    sites = []
    for g in ix.functions.values():
        if not g.module.name.startswith(WRITER_MODS[0]):
            continue
        for c in A.body_nodes(g.node):
            if isinstance(c, ast.Call) and A.callee_name(c) == fi.node.name and g is not fi:
                ts, how = prog.resolve_callee(g, c.func)
                if any(t is fi for t in ts) or how in ("by-name", "unresolved"):
                    sites.append((g, c))
    if not sites:
        return False, "no call site found"
    whys = []
    for g, c in sites:
        if isinstance(tag, ast.Name) and tag.id in fi.params():
            ps = [p for p in fi.params() if p != "self"]
            i = ps.index(tag.id)
            actual = c.args[i] if i < len(c.args) else A.kwarg(c, tag.id)
            if actual is None:
                return False, f"call site {g.short} does not pass the tag"
            ok, why = _gated(prog, g, c, actual, depth + 1)
        else:
            ok, why = _gated(prog, g, c, tag, depth + 1)
        if not ok:
            return False, f"call site in {g.short}: {why}"
        whys.append(f"{g.short}: {why}")
    return True, "; ".join(whys)


# ----------------------------------------------------------------------------- R17.3
def r173(prog, chk):
    ix = prog.ix
    f = ix.get_method(FC, "initFeatureWriters", own=True)
    st = [(s, t, v) for s, t, v in attr_stores(f, "featureWriters")]
    need(len(st) == 1, f"cannot interpret {f.short}")
    v = st[0][2]
    ok = isinstance(v, ast.BinOp) and isinstance(v.op, ast.Add) and isinstance(v.left, ast.Name) and isinstance(v.right, ast.Name)
    if ok:
        ga = [c for c in calls_named(f, "append") if T(c.func.value) == v.left.id]
        oa = [c for c in calls_named(f, "append") if T(c.func.value) == v.right.id]
        ok = len(ga) == 1 and len(oa) == 1 and any(o == "eq" and l.endswith(".tableTag") and r == "'GSUB'" for o, l, r in facts(prog, f, ga[0])) \
            and any(o == "ne" and l.endswith(".tableTag") and r == "'GSUB'" for o, l, r in facts(prog, f, oa[0])) and T(ga[0].args[0]) == T(oa[0].args[0])
        lp = [a for a in ix.ancestors(ga[0]) if isinstance(a, ast.For)]
        ok = ok and len(lp) == 1 and not [x for x in ast.walk(lp[0]) if isinstance(x, (ast.Break, ast.Continue))]
    chk.ob("R17.3", f"{f.short}|featureWriters = GSUB writers + all others, each writer in exactly one list", ok, where(f, st[0][0]), detail=T(v),
           message=f"{f.short}: writers that generate substitutions no longer run before the writers that read the GSUB table (or a writer is dropped / duplicated)")
    sf = ix.get_method(FC, "setupFeatures", own=True)
    lp = [n for n in A.body_nodes(sf.node) if isinstance(n, ast.For) and T(n.iter) == "self.featureWriters"]
    wr = [c for c in calls_named(sf, "write")]
    ok = len(wr) == 1 and any(a in lp for a in ix.ancestors(wr[0])) and T(wr[0].func.value) in [A.target_names(l.target)[0] for l in lp]
    chk.ob("R17.3", f"{sf.short}|writers run in that order", ok, where(sf), detail="for writer in self.featureWriters: writer.write(...)", message=f"{sf.short}: writers are not run in the order of self.featureWriters")
    chk.minimum("R17.3", 2)


# ----------------------------------------------------------------------------- R17.4
def _subst_classes() -> Set[str]:
    m = external_module("fontTools.feaLib.ast")
    return {n.name for n in m.body if isinstance(n, ast.ClassDef) and "Subst" in n.name}


def r174(prog, chk):
    ix = prog.ix
    subst = _subst_classes()
    need(len(subst) >= 6, f"fontTools feaLib substitution statement classes not found ({sorted(subst)})")
    dw = ix.class_attr(ix.get_class(FC), "defaultFeatureWriters")
    for w in ix.subclasses(BASEW, strict=True):
        tt = ix.class_attr(w, "tableTag")
        tag = ix.const_eval(tt[0].module, tt[1], tt[0]) if tt else None
        chk.ob("R17.4", f"{w.name}|tableTag in (GPOS, GDEF)", tag in ("GPOS", "GDEF"), f"{w.module.relpath}:{w.node.lineno}", detail=f"tableTag = {tag!r}",
               message=f"{w.name} declares tableTag {tag!r}: a shipped writer would add to GSUB")
    n = 0
    for fi in ix.functions.values():
        if not fi.module.name.startswith(WRITER_MODS[0]):
            continue
        for c in A.body_nodes(fi.node):
            if isinstance(c, ast.Call) and A.callee_name(c) in subst:
                n += 1
                chk.ob("R17.4", f"{fi.short}|{A.keytext(fi.node, c)[:60]}", False, where(fi, c), message=f"{fi.short} builds a substitution statement ({A.callee_name(c)}): the automatic writers change GSUB")
    chk.ob("R17.4", "no shipped writer constructs a feaLib substitution statement", n == 0, "", detail=f"{len(subst)} feaLib *Subst* classes looked for")
    chk.minimum("R17.4", 5)


# ----------------------------------------------------------------------------- R17.5
def r175(prog, chk):
    ix = prog.ix
    sf = ix.get_method(FC, "setupFeatures", own=True)
    parses = [c for c in A.body_nodes(sf.node) if isinstance(c, ast.Call) and A.callee_name(c) == "parseLayoutFeatures"]
    ok = len(parses) == 1 and T(parses[0].args[0]) == "self.ufo" and not any(isinstance(a, (ast.For, ast.While)) for a in ix.ancestors(parses[0]))
    chk.ob("R17.5", f"{sf.short}|the user's features are parsed once", ok, where(sf), detail=T(parses[0]) if parses else "", message=f"{sf.short}: the user's feature file is parsed more than once / not from self.ufo")
    ff = ix.enclosing_stmt(parses[0]).targets[0].id if parses else "?"
    wr = [c for c in calls_named(sf, "write")]
    ok = len(wr) == 1 and T(wr[0].args[1]) == ff and T(wr[0].args[0]) == "self.ufo"
    chk.ob("R17.5", f"{sf.short}|every writer works on that one parsed object", ok, where(sf, wr[0]) if wr else where(sf), detail=T(wr[0]) if wr else "", message=f"{sf.short}: writers do not all get the same parsed feature file")
    st = [(s, t, v) for s, t, v in attr_stores(sf, "features")]
    withw = [x for x in st if any(o == "truthy" and l == "self.featureWriters" for o, l, r in facts(prog, sf, x[0]))]
    without = [x for x in st if any(o == "falsy" and l == "self.featureWriters" for o, l, r in facts(prog, sf, x[0]))]
    ok = len(withw) == 1 and T(withw[0][2]) == f"{ff}.asFea()" and len(without) == 1 and T(without[0][2]).startswith("self.ufo.features.text")
    chk.ob("R17.5", f"{sf.short}|compiled source = serialisation of that object; without writers the user's own text", ok, where(sf), detail="self.features = featureFile.asFea() / self.ufo.features.text or ''",
           message=f"{sf.short}: the compiled feature source is not the (extended) user file")
    chk.minimum("R17.5", 3)


# ----------------------------------------------------------------------------- R17.6
def r176(prog, chk):
    ix = prog.ix
    cm = ix.get_method(BASEW, "collectInsertMarkers", own=True)
    st = [(s, t, v) for s, t, v in subscript_stores(cm)]
    need(len(st) == 1, f"cannot interpret {cm.short}")
    fs = facts(prog, cm, st[0][0])
    cs = conds(prog, cm, st[0][0])
    top = any(o == "eq" and l.startswith("len(") and r == "1" for o, l, r in fs) and any(o == "truthy" and l.startswith("isinstance(") and "FeatureBlock" in l for o, l, r in fs)
    first = any(o == "notin" and l.endswith(".name") for o, l, r in fs)
    wanted = any(o == "in" and l.endswith(".name") and r == cm.params()[2] for o, l, r in fs)
    chk.ob("R17.6", f"{cm.short}|markers count only in top-level feature blocks of wanted tags, first one per tag", top and first and wanted, where(cm, st[0][0]), detail="len(blocks) == 1 and isinstance(blocks[0], FeatureBlock); name in tags and not in result",
           message=f"{cm.short}: an insert marker nested in a lookup / in another tag's block / a second marker is honoured")
    ok = isinstance(st[0][2], ast.Tuple) and len(st[0][2].elts) == 2
    chk.ob("R17.6", f"{cm.short}|records (block, comment)", ok, where(cm, st[0][0]), detail=T(st[0][2]), nontrivial=False, message=f"{cm.short}: recorded value is not (block, comment)")
    sc = ix.get_method(BASEW, "setContext", own=True)
    c = [c for c in calls_named(sc, "collectInsertMarkers")]
    ok = len(c) == 1 and any(o == "eq" and l == "self.mode" and r == "'skip'" for o, l, r in facts(prog, sc, c[0])) and any(o == "isnot" and l == "self.insertFeatureMarker" for o, l, r in facts(prog, sc, c[0]))
    chk.ob("R17.6", f"{sc.short}|markers only in skip mode and when the writer has a marker pattern", ok, where(sc), detail="if self.mode == 'skip' and self.insertFeatureMarker is not None", message=f"{sc.short}: markers are honoured outside skip mode")
    chk.minimum("R17.6", 3)



# ----------------------------------------------------------------------------- R17.7
def r177(prog, chk):
    """include() statements resolve against the same directory - the parent of the UFO, as the UFO3 spec says - whether
    the feature text is parsed for the writers (parseLayoutFeatures: explicit includeDir) or handed to feaLib as it is
    when no writer runs (buildTables: feaLib takes dirname(filename))."""
    ix = prog.ix

    def is_ufo_path(e):
        if isinstance(e, ast.Call) and A.callee_name(e) in ("normpath", "abspath", "fspath", "str") and e.args:
            return is_ufo_path(e.args[0])
        return isinstance(e, ast.Attribute) and e.attr == "path"
    bt = ix.get_method("ufo2ft.featureCompiler.FeatureCompiler", "buildTables", own=True)
    calls = [c for c in calls_named(bt, "addOpenTypeFeaturesFromString")]
    need(calls, f"cannot interpret {bt.short}: addOpenTypeFeaturesFromString")
    for c in calls:
        fnarg = A.kwarg(c, "filename")
        ok = fnarg is not None
        if ok:
            ok, bad = every_origin(prog, bt, fnarg, lambda e, f_: is_ufo_path(e), allow_const=True)
        chk.ob("R17.7", f"{bt.short}|the file name given to feaLib is the UFO path itself (its parent is the include directory)", ok, where(bt, c), detail=T(c, 90),
               message=f"{bt.short}: feaLib derives the include directory from dirname(filename); the file name is no longer the UFO path, so without feature writers include() "
                       f"statements resolve against another directory than with them")
    pl = ix.get_func("ufo2ft.featureCompiler:parseLayoutFeatures")
    ps = [c for c in calls_named(pl, "Parser")]
    need(len(ps) == 1, f"cannot interpret {pl.short}: Parser")
    inc = A.kwarg(ps[0], "includeDir")

    def ufo_path_expr(e, depth=0):
        if depth > 6:
            return False
        if is_ufo_path(e):
            return True
        if isinstance(e, ast.Call) and A.callee_name(e) in ("normpath", "abspath", "fspath", "str") and e.args:
            return ufo_path_expr(e.args[0], depth + 1)
        if isinstance(e, ast.Name):
            ds = prog.reaching(pl, e.id, e)
            return bool(ds) and all(d.kind == "assign" and d.element()[1] is None and d.element()[0] is not None and ufo_path_expr(d.element()[0], depth + 1) for d in ds)
        return False

    def incl_ok(e, depth=0):
        if depth > 8:
            return False
        if isinstance(e, ast.Constant):
            return e.value is None or e.value == "."
        if isinstance(e, ast.Name):
            ds = prog.reaching(pl, e.id, e)
            return bool(ds) and all(d.kind == "param" or (d.kind == "assign" and d.element()[1] is None and d.element()[0] is not None and incl_ok(d.element()[0], depth + 1)) for d in ds)
        if isinstance(e, ast.IfExp):
            return incl_ok(e.body, depth + 1) and incl_ok(e.orelse, depth + 1)
        if isinstance(e, ast.BoolOp) and isinstance(e.op, ast.Or):
            return all(incl_ok(v, depth + 1) for v in e.values)
        if isinstance(e, ast.Call) and A.callee_name(e) in ("normpath", "abspath") and e.args:
            return incl_ok(e.args[0], depth + 1)
        if isinstance(e, ast.Call) and A.callee_name(e) == "dirname" and e.args:
            return ufo_path_expr(e.args[0])
        return False
    ok = inc is not None and incl_ok(inc)
    chk.ob("R17.7", f"{pl.short}|includeDir is the caller's, else the parent directory of the UFO", ok, where(pl, ps[0]), detail=T(ps[0], 80),
           message=f"{pl.short}: include() statements are no longer resolved relative to the UFO's parent directory")
    chk.minimum("R17.7", 2)



# ----------------------------------------------------------------------------- R17.8
def r178(prog, chk):
    """Generated glyph classes never take a class name the user's feature file already defines (a second definition
    of the same name would replace the user's class for everything that follows): every writer hands its feature file
    to makeGlyphClassDefinitions, which reserves the existing class names before it invents new ones."""
    ix = prog.ix
    mk = ix.get_func("ufo2ft.featureWriters.ast:makeGlyphClassDefinitions")
    ps = mk.params()
    need(len(ps) >= 2, f"cannot interpret {mk.short}")
    fea = ps[1]
    taken = [st for st in A.stmts_of(mk.node) if isinstance(st, ast.Assign) and isinstance(st.value, (ast.SetComp, ast.Call)) and "iterClassDefinitions" in T(st.value) and fea in T(st.value)]
    ok = len(taken) == 1 and any(o == "isnot" and l == fea and r == "None" for o, l, r in facts(prog, mk, taken[0]))
    names = T(taken[0].targets[0]) if taken else "?"
    uses = [c for c in calls_named(mk, "makeFeaClassName")]
    ok = ok and bool(uses) and all(len(c.args) >= 2 and T(c.args[1]) == names or T(A.kwarg(c, "existingClassNames")) == names for c in uses)
    adds = [c for c in calls_named(mk, "add") if T(c.func.value) == names]
    ok = ok and bool(adds)
    chk.ob("R17.8", f"{mk.short}|class names already defined in the feature file are reserved, new names are added as they are handed out", ok, where(mk), detail=f"{names} = names of iterClassDefinitions({fea})",
           message=f"{mk.short}: generated glyph classes can get a name the feature file already defines")
    n = 0
    for fi in ix.functions.values():
        if not fi.module.name.startswith("ufo2ft.featureWriters") or fi is mk:
            continue
        for c in calls_named(fi, "makeGlyphClassDefinitions"):
            n += 1
            a = A.kwarg(c, fea)
            ok = a is not None and (T(a).endswith(".feaFile") or T(a) == "feaFile")
            chk.ob("R17.8", f"{fi.short}|{A.keytext(fi.node, c)}|the writer's feature file is handed to makeGlyphClassDefinitions", ok, where(fi, c), detail=T(a) if a is not None else "no feaFile argument",
                   message=f"{fi.short}: glyph classes are generated without looking at the class names of the user's feature file: a generated class can redefine a user's class of the same name")
    need(n >= 2, "makeGlyphClassDefinitions call sites not found")
    # who may define a glyph class without going through that reservation: only callers that pick the name with
    # makeFeaClassName(<name>, <names already defined>) themselves
    for fi in ix.functions.values():
        if not fi.module.name.startswith("ufo2ft.featureWriters") or fi.module.name.endswith(".ast") or isinstance(fi.node, ast.Lambda):
            continue
        for c in A.body_nodes(fi.node):
            if isinstance(c, ast.Call) and A.callee_name(c) in ("makeGlyphClassDefinition", "GlyphClassDefinition") and c.args:
                okn, _ = every_origin(prog, fi, c.args[0], lambda x, ff: isinstance(x, ast.Call) and A.callee_name(x) == "makeFeaClassName" and (len(x.args) >= 2 or A.kwarg(x, "existingClassNames") is not None),
                                      allow_const=False)
                chk.ob("R17.8", f"{fi.short}|{A.keytext(fi.node, c)}|a class defined directly gets a name checked against the existing ones", okn, where(fi, c), detail=T(c, 70),
                       message=f"{fi.short} defines a glyph class under a name that was not checked against the classes already defined (`{T(c, 60)}`): feaLib lets a later definition "
                               f"silently replace the user's class of that name for every statement that follows")
    chk.minimum("R17.8", 4)



# ----------------------------------------------------------------------------- R17.9
def check_generated_blocks_top_level(prog, chk, rule):
    """A generated feature goes into the file as its own top-level block (next to the user's block that holds the marker),
    never into a user's block: the statement list of a user block only ever loses statements in _insert (the marker
    comment, or the tail that moves into a new block of the same name).  A generated lookup spliced into a user block
    inherits whatever `script` / `language` statement precedes it and is no longer registered for every language system.
    Shared with C20 (R20.7)."""
    ix = prog.ix
    ins = ix.get_method(BASEW, "_insert", own=True)
    # the generated features, by role: the parameter enumerated by the loop that looks the markers up
    fparam = []
    for l_ in A.body_nodes(ins.node):
        if isinstance(l_, ast.For) and isinstance(l_.iter, ast.Call) and A.callee_name(l_.iter) == "enumerate" and l_.iter.args and isinstance(l_.iter.args[0], ast.Name) \
                and l_.iter.args[0].id in ins.params() and any("insertComments" in T(x) for x in ast.walk(l_) if isinstance(x, ast.Subscript)):
            fparam.append(l_.iter.args[0].id)
    need(len(fparam) == 1, f"cannot interpret {ins.short}: features parameter")
    # names bound to user blocks: unpacked from insertComments[...]
    blocks = set()
    for st in A.stmts_of(ins.node):
        if isinstance(st, ast.Assign) and isinstance(st.targets[0], ast.Tuple) and isinstance(st.value, ast.Subscript) and "insertComments" in T(st.value.value):
            tn = A.target_names(st.targets[0])
            if tn:
                blocks.add(tn[0])
    need(blocks, f"cannot interpret {ins.short}: marker blocks")
    n = 0
    for node in A.body_nodes(ins.node):
        bad = None
        recv = None
        if isinstance(node, ast.Call) and isinstance(node.func, ast.Attribute) and node.func.attr in ("insert", "append", "extend", "__setitem__", "__iadd__"):
            recv = node.func.value
            if isinstance(recv, ast.Attribute) and recv.attr == "statements" and T(recv.value) in blocks:
                bad = node
        elif isinstance(node, ast.AugAssign) and isinstance(node.target, ast.Attribute) and node.target.attr == "statements" and T(node.target.value) in blocks:
            bad = node
        elif isinstance(node, ast.Assign):
            for t in node.targets:
                if isinstance(t, ast.Subscript) and isinstance(t.value, ast.Attribute) and t.value.attr == "statements" and T(t.value.value) in blocks:
                    bad = node  # element / slice assignment into the user's block
                elif isinstance(t, ast.Attribute) and t.attr == "statements" and T(t.value) in blocks:
                    # whole-list assignment: only a slice of the block's own list
                    v = node.value
                    if not (isinstance(v, ast.Subscript) and isinstance(v.slice, ast.Slice) and T(v.value) == T(t)):
                        bad = node
                    else:
                        n += 1
                        chk.ob(rule, f"{ins.short}|{A.keytext(ins.node, node)}|a user block only loses statements", True, where(ins, node), detail="slice of its own statements")
        if bad is not None:
            n += 1
            chk.ob(rule, f"{ins.short}|{A.keytext(ins.node, bad)}|a user block only loses statements", False, where(ins, bad), detail=T(bad, 70),
                   message=f"{ins.short}: `{T(bad, 60)}` adds statements to a block of the user's feature file: generated code placed there inherits the block's "
                           f"script / language context (and the user's block is no longer what the user wrote)")
    # every generated feature block is inserted into the top-level statement list
    tops = [c for c in A.body_nodes(ins.node) if isinstance(c, ast.Call) and isinstance(c.func, ast.Attribute) and c.func.attr == "insert" and len(c.args) == 2
            and isinstance(c.func.value, ast.Name) and any(isinstance(d.value, ast.Attribute) and d.value.attr == "statements" and T(d.value.value) == ins.params()[1]
                                                            for d in prog.reaching(ins, c.func.value.id, c.func.value) if d.value is not None)]
    lp = [l for l in A.body_nodes(ins.node) if isinstance(l, ast.For) and fparam[0] in T(l.iter) and "enumerate" in T(l.iter)]
    ok = False
    if lp:
        fv = A.target_names(lp[0].target)[-1]
        mine = [c for c in tops if T(c.args[1]) == fv and any(a is lp[0] for a in ix.ancestors(c))]
        cfg = prog.cfg(ins)
        marker_if = [a for a in lp[0].body if isinstance(a, ast.If)]
        ok = len(mine) == 1 and not [g for g in may_conds(prog, ins, mine[0]) if g.kind in ("if", "boolop") and any(a is lp[0] for a in ix.ancestors(g.loc))
                                    and not (marker_if and g.loc is marker_if[0].test) and "insertComments" not in T(g.test)]
    chk.ob(rule, f"{ins.short}|a feature with a marker is inserted as a top-level block on every path", ok, where(ins), detail="statements.insert(index, feature) for every marker position",
           message=f"{ins.short}: for some marker position the generated feature block is not inserted into the file's top-level statements")
    chk.minimum(rule, 2)



# ----------------------------------------------------------------------------- R17.10
def r1710(prog, chk):
    """What the user's own `table GDEF` block defines is not generated again: glyph class definitions when it has a
    GlyphClassDef statement, ligature carets when it has ANY of feaLib's ligature-caret statements (by position or by
    contour-point index).  The set of caret statement classes is read from fontTools.feaLib.ast, not frozen here."""
    from ..core.index import external_module
    ix = prog.ix
    sc = ix.get_method("ufo2ft.featureWriters.gdefFeatureWriter.GdefFeatureWriter", "setContext", own=True)
    fea = external_module("fontTools.feaLib.ast")
    caret_classes = {n.name for n in fea.body if isinstance(n, ast.ClassDef) and n.name.startswith("LigatureCaret") and n.name.endswith("Statement")}
    need(len(caret_classes) >= 2, f"fontTools.feaLib.ast: ligature caret statement classes not found ({sorted(caret_classes)})")
    want = {"LigatureCarets": caret_classes, "GlyphClassDefs": {"GlyphClassDefStatement"}}
    discards = [c for c in A.body_nodes(sc.node) if isinstance(c, ast.Call) and isinstance(c.func, ast.Attribute) and c.func.attr in ("discard", "remove", "difference_update")
                and c.args and isinstance(c.args[0], ast.Constant) and c.args[0].value in want]
    seen = {}
    for c in discards:
        item = c.args[0].value
        named = set()
        typed = False
        for g in may_conds(prog, sc, c):
            if g.polarity is not True:
                continue  # a class named in a test that must FAIL on the way here does not lead to the discard
            t_ = g.test
            for x in ast.walk(t_):
                if isinstance(x, ast.Attribute) and x.attr.endswith("Statement"):
                    named.add(x.attr)
                    typed = True
                elif isinstance(x, ast.Name) and x.id.endswith("Statement"):
                    named.add(x.id)
                    typed = True
        if typed:
            seen.setdefault(item, set()).update(named)
    for item, classes in want.items():
        got = seen.get(item, set())
        chk.ob("R17.10", f"{sc.short}|{item} are not generated when the user's GDEF table has {' / '.join(sorted(classes))}", classes <= got, where(sc), detail=f"discarded under {sorted(got)}",
               message=f"{sc.short}: '{item}' stay on the to-do list although the user's GDEF table can already define them through {sorted(classes - got)}: generated statements are "
                       f"appended to the user's table (duplicated / conflicting definitions)")
    chk.minimum("R17.10", 2)


# ----------------------------------------------------------------------------- R17.11
def r1711(prog, chk):
    ix = prog.ix
    f = ix.get_func("ufo2ft.featureWriters.ast:findCommentPattern")
    pat = f.params()[1]
    ANCHORED, FLOATING = ("match", "fullmatch"), ("search", "findall", "finditer", "split", "sub", "subn")
    uses = []
    for c in A.body_nodes(f.node):
        if not (isinstance(c, ast.Call) and isinstance(c.func, ast.Attribute) and c.func.attr in ANCHORED + FLOATING):
            continue
        recv = c.func.value
        # re.match(pattern, text) or <compiled pattern>.match(text)
        via_module = ix.resolve_expr(f.module, recv, None) == "re"
        compiled = False
        if not via_module:
            okc, _ = every_origin(prog, f, recv, lambda x, ff: isinstance(x, ast.Call) and A.callee_name(x) == "compile" and x.args and T(x.args[0]) == pat, allow_const=False)
            compiled = okc
        if via_module and c.args and T(c.args[0]) == pat or compiled:
            uses.append(c)
    ok = len(uses) == 1 and uses[0].func.attr in ANCHORED
    chk.ob("R17.11", f"{f.short}|the marker pattern is matched anchored at the start of the comment", ok, where(f, uses[0]) if uses else where(f), detail=T(uses[0], 70) if uses else "no regex use found",
           message=f"{f.short}: the insertion-marker pattern is no longer matched from the start of the comment (`{T(uses[0], 60) if uses else ''}`): a user's comment that only mentions "
                   f"the marker text is taken for a marker - the comment is removed and generated code is merged into a feature the user wrote without a marker")
    # the pattern: optional white space, then the comment sign and the marker text
    bw = ix.get_module("ufo2ft.featureWriters.baseFeatureWriter")
    e = bw.constants.get("INSERT_FEATURE_MARKER")
    okp, shown = False, ""
    if isinstance(e, ast.Constant) and isinstance(e.value, str):
        import re._parser as rp
        shown = e.value
        try:
            items = list(rp.parse(e.value))
        except Exception:
            items = []
        k = 0
        while k < len(items) and str(items[k][0]) in ("MAX_REPEAT", "MIN_REPEAT") and str(items[k][1][2][0][0]) == "IN":
            k += 1  # leading \s*
        lits = []
        while k < len(items) and str(items[k][0]) == "LITERAL":
            lits.append(chr(items[k][1]))
            k += 1
        okp = "".join(lits).startswith("# Automatic Code")
    chk.ob("R17.11", "INSERT_FEATURE_MARKER = optional white space, then '# Automatic Code'", okp, bw.relpath, detail=shown, nontrivial=False,
           message=f"the insertion marker pattern changed (`{shown}`): comments of the user that are not markers can match")
    chk.minimum("R17.11", 2)


# ----------------------------------------------------------------------------- R17.12
def r1712(prog, chk):
    ix = prog.ix
    f = ix.get_method("ufo2ft.featureWriters.markFeatureWriter.MarkFeatureWriter", "_makeMarkClassDefinitions", own=True)
    calls = [c for c in calls_named(f, "_defineMarkClass")]
    need(len(calls) == 1, f"cannot interpret {f.short}: _defineMarkClass call")
    c = calls[0]
    a = A.arg_at(c, 3, "className")
    loops = [x for x in ix.ancestors(c) if isinstance(x, ast.For)]
    st = ix.enclosing_stmt(c)
    res = st.targets[0].id if isinstance(st, ast.Assign) and isinstance(st.targets[0], ast.Name) else None
    ok = isinstance(a, ast.Name) and bool(loops) and res is not None
    if ok:
        follow = [s_ for s_ in ast.walk(loops[0]) if isinstance(s_, ast.Assign) and any(isinstance(t, ast.Name) and t.id == a.id for t in s_.targets)
                  and T(s_.value) == f"{res}.markClass.name"]
        ok = len(follow) == 1 and any(o == "isnot" and l == res and r == "None" for o, l, r in facts(prog, f, follow[0]))
        if ok:
            # ... and that rebinding reaches the next iteration's call (loop-carried), i.e. the name is not reset inside the inner loop
            resets = [s_ for s_ in ast.walk(loops[0]) if isinstance(s_, ast.Assign) and any(isinstance(t, ast.Name) and t.id == a.id for t in s_.targets) and s_ is not follow[0]]
            ok = not resets
        # the class remembered for the anchor is looked up under the current name
        sts = [(s_, t, v) for s_, t, v in subscript_stores(f) if any(x is loops[0] for x in ix.ancestors(s_))]
        ok = ok and len(sts) == 1 and isinstance(sts[0][2], ast.Subscript) and T(sts[0][2].slice) == a.id
    chk.ob("R17.12", f"{f.short}|after a name clash the renamed class is used for the rest of the anchor's marks", ok, where(f, c), detail="className = mcd.markClass.name (loop-carried); allMarkClasses[key] = currentClasses[className]",
           message=f"{f.short}: after a generated definition had to go to a renamed class (the user already defines a class of that name for this glyph with another anchor), later marks are "
                   f"still defined under the original name: the user's own mark class is extended with generated glyphs and the user's rules on it change")
    chk.minimum("R17.12", 1)


MUTANTS = [
    M("marker deleted before the only-comments tests, the 'after' slice skips one statement (seeded C17o)", "ufo2ft/featureWriters/baseFeatureWriter.py", "BaseFeatureWriter._insert",
      "onlyCommentsBefore = all((isinstance(s, ast.Comment) for s in block.statements[:markerIndex]))\nonlyCommentsAfter = all((isinstance(s, ast.Comment) for s in block.statements[markerIndex:]))\ndel block.statements[markerIndex]", "del block.statements[markerIndex]\nonlyCommentsBefore = all((isinstance(s, ast.Comment) for s in block.statements[:markerIndex]))\nonlyCommentsAfter = all((isinstance(s, ast.Comment) for s in block.statements[markerIndex + 1:]))", rule="R17.1"),
    M("marker deleted before the only-comments tests, slices at the marker's old position", "ufo2ft/featureWriters/baseFeatureWriter.py", "BaseFeatureWriter._insert",
      "onlyCommentsBefore = all((isinstance(s, ast.Comment) for s in block.statements[:markerIndex]))\nonlyCommentsAfter = all((isinstance(s, ast.Comment) for s in block.statements[markerIndex:]))\ndel block.statements[markerIndex]", "del block.statements[markerIndex]\nonlyCommentsBefore = all((isinstance(s, ast.Comment) for s in block.statements[:markerIndex]))\nonlyCommentsAfter = all((isinstance(s, ast.Comment) for s in block.statements[markerIndex:]))", kind="equiv"),
    M("'after' test starts behind the marker, before it is deleted", "ufo2ft/featureWriters/baseFeatureWriter.py", "BaseFeatureWriter._insert",
      "onlyCommentsAfter = all((isinstance(s, ast.Comment) for s in block.statements[markerIndex:]))", "onlyCommentsAfter = all((isinstance(s, ast.Comment) for s in block.statements[markerIndex + 1:]))", kind="equiv"),
    M("mark filtering set class defined without reserving the user's class names (seeded C17m)", "ufo2ft/featureWriters/markFeatureWriter.py", "MarkFeatureWriter._makeMarkFilteringSetClass",
      "return ast.makeGlyphClassDefinitions({className: members}, feaFile=self.context.feaFile)[className]", "return ast.makeGlyphClassDefinition(ast.makeFeaClassName(className), members)", rule="R17.8"),
    M("after a name clash later marks still go to the user's class (seeded C17l)", "ufo2ft/featureWriters/markFeatureWriter.py", "MarkFeatureWriter._makeMarkClassDefinitions",
      "className = mcd.markClass.name", "pass", rule="R17.12"),
    M("marker pattern searched anywhere in the comment (seeded C17j)", "ufo2ft/featureWriters/ast.py", "findCommentPattern",
      "re.match(pattern, str(statement))", "re.search(pattern, str(statement))", rule="R17.11"),
    M("marker pattern compiled once, still anchored", "ufo2ft/featureWriters/ast.py", "findCommentPattern",
      "re.match(pattern, str(statement))", "re.compile(pattern).match(str(statement))", kind="equiv"),
    M("carets given by contour-point index do not stop caret generation (seeded C17h)", "ufo2ft/featureWriters/gdefFeatureWriter.py", "GdefFeatureWriter.setContext",
      "isinstance(fea, ast.LigatureCaretByIndexStatement) or isinstance(fea, ast.LigatureCaretByPosStatement)", "isinstance(fea, ast.LigatureCaretByPosStatement)", rule="R17.10"),
    M("generated statements spliced into the user's block at a mid-block marker (seeded C20g shape)", "ufo2ft/featureWriters/baseFeatureWriter.py", "BaseFeatureWriter._insert",
      "block.statements = block.statements[:markerIndex]", "block.statements = block.statements[:markerIndex]\nblock.statements[markerIndex:markerIndex] = feature.statements", rule="R17.9"),
    M("legacy kern writer builds its filtering class without the feature file (mutation scan run 2, k=154)", "ufo2ft/featureWriters/kernFeatureWriter2.py", "make_kerning_lookup",
      "ast.makeGlyphClassDefinitions({className: spacing}, feaFile=context.feaFile)", "ast.makeGlyphClassDefinitions({className: spacing})", rule="R17.8"),
    M("existing class names not reserved", "ufo2ft/featureWriters/ast.py", "makeGlyphClassDefinitions",
      "{cdef.name for cdef in iterClassDefinitions(feaFile)}", "set()", rule="R17.8"),
    M("feaLib gets the features.fea path when no writer runs (seeded C17f)", "ufo2ft/featureCompiler.py", "FeatureCompiler.buildTables",
      "self.ufo.path if not self.featureWriters else None", "os.path.join(self.ufo.path, 'features.fea') if not self.featureWriters else None", rule="R17.7"),
    M("include directory is the UFO itself", "ufo2ft/featureCompiler.py", "parseLayoutFeatures",
      "os.path.dirname(ufoPath) or '.'", "ufoPath", rule="R17.7"),
    M("statements before the marker dropped on split", "ufo2ft/featureWriters/baseFeatureWriter.py", "BaseFeatureWriter._insert",
      "afterBlock.statements = block.statements[markerIndex:]", "afterBlock.statements = block.statements[markerIndex + 1:]", rule="R17.1"),
    M("marked block removed even if it has rules", "ufo2ft/featureWriters/baseFeatureWriter.py", "BaseFeatureWriter._insert",
      "onlyCommentsBefore and onlyCommentsAfter", "onlyCommentsBefore", rule="R17.1"),
    M("lookups replace the tail of the file", "ufo2ft/featureWriters/baseFeatureWriter.py", "BaseFeatureWriter._insert",
      "statements[:minindex] + lookups + statements[minindex:]", "statements[:minindex] + lookups + statements[minindex + 1:]", rule="R17.1"),
    M("definitions replace the file", "ufo2ft/featureWriters/baseFeatureWriter.py", "BaseFeatureWriter._insert",
      "feaFile.statements = statements = others + statements", "feaFile.statements = statements = others + statements[len(others):]", rule="R17.1"),
    M("gdef writer clears an existing GDEF table block", "ufo2ft/featureWriters/gdefFeatureWriter.py", "GdefFeatureWriter._write",
      "feaFile = self.context.feaFile", "feaFile = self.context.feaFile\nif self.context.gdefTableBlock:\n    self.context.gdefTableBlock.statements.clear()", rule="R17.1"),
    M("wrong statement deleted as the marker", "ufo2ft/featureWriters/baseFeatureWriter.py", "BaseFeatureWriter._insert",
      "del block.statements[markerIndex]", "del block.statements[0]", rule="R17.1"),
    M("existing features stay in todo", "ufo2ft/featureWriters/baseFeatureWriter.py", "BaseFeatureWriter.setContext",
      "todo.difference_update(existing)", "pass", rule="R17.2"),
    M("kern written although the user has it", "ufo2ft/featureWriters/kernFeatureWriter.py", "KernFeatureWriter._makeFeatureBlocks",
      "'kern' in self.context.todo", "True", rule="R17.2"),
    M("mkmk not gated", "ufo2ft/featureWriters/markFeatureWriter.py", "MarkFeatureWriter._makeFeatures",
      "'mkmk' in todo", "'mark' in todo", rule="R17.2"),
    M("mark writer continues without todo", "ufo2ft/featureWriters/markFeatureWriter.py", "MarkFeatureWriter.shouldContinue",
      "return super().shouldContinue()", "return True", rule="R17.2"),
    M("GSUB writers run last", "ufo2ft/featureCompiler.py", "FeatureCompiler.initFeatureWriters", "gsubWriters + others", "others + gsubWriters", rule="R17.3"),
    M("kern writer declares GSUB", "ufo2ft/featureWriters/kernFeatureWriter.py", "KernFeatureWriter", "tableTag = 'GPOS'", "tableTag = 'GSUB'", rule="R17.4"),
    M("curs writer adds a substitution", "ufo2ft/featureWriters/cursFeatureWriter.py", "CursFeatureWriter._makeCursiveFeature",
      "feature.statements.extend(lookups)", "feature.statements.extend(lookups)\nfeature.statements.append(ast.SingleSubstStatement([], [], [], [], False))", rule="R17.4"),
    M("features re-parsed for every writer", "ufo2ft/featureCompiler.py", "FeatureCompiler.setupFeatures",
      "writer.write(self.ufo, featureFile, compiler=self)", "writer.write(self.ufo, parseLayoutFeatures(self.ufo, self.feaIncludeDir), compiler=self)", rule="R17.5"),
    M("markers honoured in nested blocks", "ufo2ft/featureWriters/baseFeatureWriter.py", "BaseFeatureWriter.collectInsertMarkers",
      "len(blocks) == 1 and isinstance(blocks[0], ast.FeatureBlock)", "isinstance(blocks[0], ast.FeatureBlock)", rule="R17.6"),
    M("last marker wins", "ufo2ft/featureWriters/baseFeatureWriter.py", "BaseFeatureWriter.collectInsertMarkers",
      "block.name in featureTags and block.name not in insertComments", "block.name in featureTags", rule="R17.6"),
]
