"""C15 - component/transform filters preserve rendering; anchors follow components (structural clauses)."""

from __future__ import annotations

import ast
from typing import Dict, List, Optional, Set, Tuple

from ..core import astutil as A
from ..core.index import AnalysisError, FuncInfo
from ..selftest import M
from .common import ext_name, may_conds, is_early_exit_guard, T, attr_stores, calls_named, conds, every_origin, facts, need, subscript_stores, where
from . import c01, c02

TR = "ufo2ft.filters.transformations"
PA = "ufo2ft.filters.propagateAnchors"
DT = "ufo2ft.filters.decomposeTransformedComponents"


def run(prog, chk):
    chk.decided += [
        "decomposition reverses flipped components by default and at every call site (R15.1, shared with C01); every component is drawn through the decomposing pen and then removed (R15.1b)",
        "'transformed' means the 2x2 part differs from the identity; both sibling filters decompose iff some component is transformed (R15.2)",
        "nested component transformations are composed as outer o inner with fontTools' Transform algebra (R15.3, shared with C02)",
        "anchor propagation: the only mutation of the composite's anchors is appending entries of to_add; an entry is only created when no existing anchor of the composite starts with that name; mark adjustment only rewrites existing entries; each position is the base anchor mapped through its own component's transformation (R15.4)",
        "transformations filter: included bases are transformed (recursively) before the composite is replayed; components of already transformed bases are compensated with the inverse matrix; all anchors, the advance width and height are mapped; matrix build order (R15.5)",
        "components are only resolved into contours by util.decomposeCompositeGlyph; no other decomposing pen or component removal outside reviewed functions (R15.6, shared with C01 / C02)",
        "per-run accumulators of the interpolatable filters are per master inside the loop over the glyph sets: a name-keyed memo shared by all masters would let the first master's transformations stand for the others (R15.7, shared with C09)",
    ]
    chk.decided += ["the component / transform filters keep nothing between calls outside their per-call context: a flattening / decomposition result remembered on the filter object would be replayed "
                    "for another font whose same-named glyphs are built differently (R15.8 = R14.2 = R08.8)"]
    chk.decided += ["the user's pre-filters (anchor propagation among them) see the glyphs with their components: in the interpolatable TrueType pre-processor no decomposition step runs before the loop over "
                    "self.preFilters (R15.9)"]
    chk.not_decided += ["affine arithmetic and exactness", "rendering equality itself"]
    chk.guard(c01.r012, prog, chk, "R15.1")
    chk.guard(r151b, prog, chk)
    chk.guard(check_single_decomposer, prog, chk, "R15.6")
    chk.guard(r152, prog, chk)
    chk.guard(c02.r0210, prog, chk, "R15.3")
    chk.guard(r154, prog, chk)
    chk.guard(r155, prog, chk)
    from .c09 import check_master_isolation
    chk.guard(check_master_isolation, prog, chk, "R15.7")
    from .c14 import check_no_filter_state
    chk.guard(lambda prog_, chk_: (check_no_filter_state(prog_, chk_, "R15.8"), None)[1], prog, chk)
    chk.guard(r159, prog, chk)


# ----------------------------------------------------------------------------- decomposition is done in one place
DECOMPOSING_PENS = {"DecomposingRecordingPointPen", "DecomposingRecordingPen", "DecomposingPointPen", "DecomposingPen", "DecomposingFilterPointPen", "DecomposingFilterPen"}
REVIEWED_COMPONENT_REMOVAL = {
    "decomposeCompositeGlyph": "the one decomposition helper (components are drawn through the pen first)",
    "TransformationsFilter.filter": "outline recorded, cleared and replayed through the transforming pen (components are re-added)",
    "_flattenGlyphComponents": "components cleared and re-added flattened",
    "swap_glyph_names": "instantiator: outlines exchanged through a temporary glyph",
}


def check_single_decomposer(prog, chk, rule: str):
    """Components are resolved into contours by `util.decomposeCompositeGlyph` only (the
    reviewed implementation: reverses flipped components at every nesting level, honours
    include / decomposeNested).  Any other decomposing pen or component removal in the
    package is a second implementation whose behaviour nothing here vouches for."""
    ix = prog.ix
    n = 0
    for fi in ix.functions.values():
        for c in A.body_nodes(fi.node):
            if not isinstance(c, ast.Call):
                continue
            name = A.callee_name(c)
            if name in DECOMPOSING_PENS:
                n += 1
                ok = fi.short == "decomposeCompositeGlyph"
                chk.ob(rule, f"{fi.short}|{name}(...)", ok, where(fi, c), detail="decomposing pen constructed in the decomposition helper only",
                       message=f"{fi.short} decomposes components with its own {name} instead of util.decomposeCompositeGlyph: flipped components at deeper nesting levels, "
                               f"include / decomposeNested and missing components are handled by code that is not the reviewed helper")
            elif name in ("removeComponent", "clearComponents") and isinstance(c.func, ast.Attribute):
                n += 1
                ok = fi.short in REVIEWED_COMPONENT_REMOVAL
                if ok:
                    chk.exempt(rule, f"{fi.short}|{A.keytext(fi.node, c)}", REVIEWED_COMPONENT_REMOVAL[fi.short])
                chk.ob(rule, f"{fi.short}|{A.keytext(fi.node, c)}", ok, where(fi, c), detail=REVIEWED_COMPONENT_REMOVAL.get(fi.short, ""), nontrivial=False,
                       message=f"{fi.short} removes components from a glyph (`{T(c, 50)}`) outside the reviewed functions: a second, unreviewed way of resolving / dropping components")
    # the filters that decompose do so through the helper
    for q in ("ufo2ft.filters.decomposeComponents.DecomposeComponentsFilter", "ufo2ft.filters.decomposeComponents.DecomposeComponentsIFilter",
              "ufo2ft.filters.skipExportGlyphs.SkipExportGlyphsFilter", "ufo2ft.filters.skipExportGlyphs.SkipExportGlyphsIFilter"):
        m = ix.get_class(q).methods.get("filter")
        need(m is not None, f"{q}.filter not found")
        cs = [c for c in A.body_nodes(m.node) if isinstance(c, ast.Call) and prog.is_call_to(m, c, "ufo2ft.util.decomposeCompositeGlyph")]
        n += 1
        chk.ob(rule, f"{m.short}|decomposes through util.decomposeCompositeGlyph", len(cs) == 1, where(m), detail=T(cs[0], 80) if cs else "",
               message=f"{m.short} no longer resolves components through util.decomposeCompositeGlyph")
    chk.minimum(rule, 10)
    return n


# ----------------------------------------------------------------------------- R15.1b
def r151b(prog, chk, rule="R15.1b"):
    ix = prog.ix
    d = ix.get_func("ufo2ft.util:decomposeCompositeGlyph")
    g = d.params()[0]
    pens = [c for c in A.body_nodes(d.node) if isinstance(c, ast.Call) and A.callee_name(c) == "DecomposingFilterPointPen"]
    need(len(pens) == 1, f"cannot interpret {d.short}")
    ok = T(pens[0].args[0]) == f"{g}.getPointPen()" and T(pens[0].args[1]) == d.params()[1]
    chk.ob(rule, f"{d.short}|the pen draws into the glyph itself and resolves bases in the given glyph set", ok, where(d, pens[0]), detail=T(pens[0], 100),
           message=f"{d.short}: the decomposing pen does not write to the glyph / does not resolve components in the glyph set it was given")
    loops = [n for n in A.body_nodes(d.node) if isinstance(n, ast.For)]
    need(len(loops) == 1, f"cannot interpret {d.short}: component loop")
    lp = loops[0]
    cv = A.target_names(lp.target)[0]
    ok = T(lp.iter) == f"list({g}.components)"
    draws = [c for c in A.calls_in(lp) if isinstance(c.func, ast.Attribute) and c.func.attr == "drawPoints" and T(c.func.value) == cv]
    rem = [c for c in A.calls_in(lp) if isinstance(c.func, ast.Attribute) and c.func.attr == "removeComponent" and T(c.args[0]) == cv]
    ok = ok and len(draws) == 1 and len(rem) == 1 and ix.enclosing_stmt(rem[0]) in lp.body and not [s for s in ast.walk(lp) if isinstance(s, (ast.Break, ast.Continue))]
    chk.ob(rule, f"{d.short}|every component is drawn through the pen, then removed; the loop runs over a copy", ok, where(d, lp), detail="for component in list(glyph.components): component.drawPoints(pen); glyph.removeComponent(component)",
           message=f"{d.short}: a component can be removed without being drawn, kept after being drawn, or skipped")
    early = [r for r in A.returns_of(d.node)]
    ok = len(early) == 1 and any("components" in T(g_.test) for g_ in conds(prog, d, early[0]))
    chk.ob(rule, f"{d.short}|only glyphs without components return early", ok, where(d), detail="if len(glyph.components) == 0: return", nontrivial=False, message=f"{d.short}: returns early for glyphs that have components")
    chk.minimum(rule, 3)


# ----------------------------------------------------------------------------- R15.2
def r152(prog, chk):
    ix = prog.ix
    mi = ix.get_module(DT)
    e = mi.constants.get("IDENTITY_2x2")
    ok = e is not None and isinstance(e, ast.Subscript) and isinstance(e.slice, ast.Slice) and e.slice.lower is None and A.is_const(e.slice.upper, 4) and e.slice.step is None \
        and ext_name(prog, mi, e.value) == "fontTools.misc.transform.Identity"
    chk.ob("R15.2", "IDENTITY_2x2 = fontTools Identity[:4]", ok, mi.relpath, detail=T(e) if e is not None else "", message="IDENTITY_2x2 is no longer the 2x2 part of fontTools' identity transform")
    it = ix.get_func(f"{DT}:_isTransformed")
    r = A.returns_of(it.node)
    ok = len(r) == 1 and isinstance(r[0].value, ast.Compare) and isinstance(r[0].value.ops[0], ast.NotEq) and {T(r[0].value.left), T(r[0].value.comparators[0])} == {f"{it.params()[0]}.transformation[:4]", "IDENTITY_2x2"}
    chk.ob("R15.2", f"{it.short}|transformed = 2x2 differs from the identity (offsets ignored)", ok, where(it), detail=T(r[0].value) if r else "",
           message=f"{it.short}: a component counts as transformed for another reason than its 2x2 part (pure offsets would be decomposed, or scaled ones kept)")
    for cls, arg in (("DecomposeTransformedComponentsFilter", None), ("DecomposeTransformedComponentsIFilter", None)):
        m = ix.get_class(f"{DT}.{cls}").methods["filter"]
        sup = [r_ for r_ in A.returns_of(m.node) if isinstance(r_.value, ast.Call) and "super()" in T(r_.value.func)]
        ok = len(sup) == 1
        if ok:
            cs = conds(prog, m, sup[0])
            anyc = [c for c in cs if any(isinstance(x, ast.Call) and A.callee_name(x) == "_isTransformed" for x in ast.walk(c.test))]
            ok = len(anyc) == 1
            if ok:
                t = anyc[0].test
                neg = isinstance(t, ast.UnaryOp) and isinstance(t.op, ast.Not)
                core = t.operand if neg else t
                ok = isinstance(core, ast.Call) and A.callee_name(core) == "any" and (anyc[0].polarity is (not neg))
        chk.ob("R15.2", f"{m.short}|decomposes iff some component (in some master) is transformed", ok, where(m), detail="if any(_isTransformed(c) ...): return super().filter(...)",
               message=f"{m.short}: the delegation to the decomposing parent is not guarded by 'some component is transformed'")
        others = [r_ for r_ in A.returns_of(m.node) if r_ not in sup]
        chk.ob("R15.2", f"{m.short}|otherwise reports no change", all(A.is_const(r_.value, False) for r_ in others) and len(others) == 1, where(m), detail="return False", nontrivial=False,
               message=f"{m.short}: untransformed glyphs are reported / handled differently")
    chk.minimum("R15.2", 6)


# ----------------------------------------------------------------------------- R15.4
def r154(prog, chk):
    ix = prog.ix
    f = ix.get_func(f"{PA}:_propagate_glyph_anchors")
    comp = f.params()[1]
    # (a) mutations of the composite
    muts = [c for c in A.body_nodes(f.node) if isinstance(c, ast.Call) and isinstance(c.func, ast.Attribute) and T(c.func.value) == comp
            and c.func.attr not in ("startswith",) and (c.func.attr.startswith(("append", "remove", "clear", "insert")) or c.func.attr in ("drawPoints", "getPointPen", "getPen"))]
    stores = [s for s in A.body_nodes(f.node) if isinstance(s, (ast.Assign, ast.AugAssign, ast.Delete)) and any(T(getattr(t, "value", t)).startswith(comp + ".") or T(t).startswith(comp + ".") for t in (s.targets if hasattr(s, "targets") else [s.target]))]
    ok = bool(muts) and all(c.func.attr == "appendAnchor" for c in muts) and not stores
    chk.ob("R15.4", f"{f.short}|the composite is only changed by appendAnchor", ok, where(f), detail=f"{len(muts)} appendAnchor call(s), no other mutation",
           message=f"{f.short}: the composite glyph is modified otherwise than by appending anchors (existing anchors can be overridden)")
    add = [c for c in calls_named(f, "_get_anchor_data")]
    need(len(add) == 1, f"cannot interpret {f.short}: _get_anchor_data call")
    to_add = T(add[0].args[0])
    for c in muts:
        loops = [a for a in ix.ancestors(c) if isinstance(a, ast.For)]
        ok = len(loops) == 1 and to_add in T(loops[0].iter)
        tn = A.target_names(loops[0].target) if loops else []
        d_ = None
        if isinstance(c.args[0], ast.Name):
            ds = prog.reaching(f, c.args[0].id, c.args[0])
            d_ = ds[0].value if len(ds) == 1 else None
        if isinstance(d_, ast.Dict) and len(tn) == 3:
            okv = {T(k): T(v) for k, v in zip(d_.keys, d_.values)} == {"'name'": tn[0], "'x'": tn[1], "'y'": tn[2]}
        else:
            okv = len(tn) == 3 and len(c.args) == 2 and T(c.args[0]) == tn[0] and T(c.args[1]) == f"({tn[1]}, {tn[2]})"
        chk.ob("R15.4", f"{f.short}|{A.keytext(f.node, c)}|appended anchors are exactly the entries of to_add (name, x, y roles)", ok and okv, where(f, c), detail=T(c, 60),
               message=f"{f.short}: an appended anchor is not an entry of the collected to_add map with its own name and coordinates")
    # (b) an entry is only created when no existing anchor starts with the name
    cs = conds(prog, f, add[0])
    guard = [g for g in cs if isinstance(g.test, ast.Call) and A.callee_name(g.test) == "any" and g.polarity is False]
    ok = len(guard) == 1
    if ok:
        ge = guard[0].test.args[0]
        loops = [a for a in ix.ancestors(add[0]) if isinstance(a, ast.For)]
        lv = A.target_names(loops[0].target)[0]
        ok = isinstance(ge, ast.GeneratorExp) and T(ge.generators[0].iter) == f"{comp}.anchors" and isinstance(ge.elt, ast.Call) and A.callee_name(ge.elt) == "startswith" and T(ge.elt.args[0]) == lv \
            and T(add[0].args[3]) == lv
    chk.ob("R15.4", f"{f.short}|an anchor is only propagated when the composite has no anchor starting with that name", ok, where(f, add[0]), detail="if not any(a.name.startswith(anchor_name) for a in composite.anchors)",
           message=f"{f.short}: an anchor can be propagated although the composite already has it (or its ligature variants): existing anchors are duplicated / a second run adds more")
    others = [(s, t, v) for s, t, v in subscript_stores(f) if T(t.value) == to_add]
    chk.ob("R15.4", f"{f.short}|to_add is only filled through the two helpers", not others, where(f), detail="no direct store", nontrivial=False, message=f"{f.short}: to_add is written directly")
    # (c) _adjust_anchors only rewrites existing keys
    aj = ix.get_func(f"{PA}:_adjust_anchors")
    ad = aj.params()[0]
    st = [(s, t, v) for s, t, v in subscript_stores(aj) if T(t.value) == ad]
    ok = len(st) == 1 and any(o == "in" and r == ad and l == T(st[0][1].slice) for o, l, r in facts(prog, aj, st[0][0]))
    chk.ob("R15.4", f"{aj.short}|mark adjustment only rewrites entries that already exist", ok, where(aj, st[0][0]) if st else where(aj), detail="if anchor.name in anchor_data and ...",
           message=f"{aj.short}: the mark adjustment can create new entries (anchors the composite already has would be added again)")
    # (d) positions are base anchors mapped through their own component's transformation
    for fn, nst in ((ix.get_func(f"{PA}:_get_anchor_data"), 2), (aj, 1)):
        sts = [(s, t, v) for s, t, v in subscript_stores(fn) if T(t.value) == fn.params()[0]]
        ok = len(sts) == nst
        for s, t, v in sts:
            okv = isinstance(v, ast.Call) and isinstance(v.func, ast.Attribute) and v.func.attr == "transformPoint" and len(v.args) == 1 and isinstance(v.args[0], ast.Tuple)
            if okv:
                ax, ay = v.args[0].elts
                okv = isinstance(ax, ast.Attribute) and ax.attr == "x" and isinstance(ay, ast.Attribute) and ay.attr == "y" and T(ax.value) == T(ay.value)
                tv = v.func.value
                # the transform is a local bound to Transform(*<component>.transformation), or that expression itself
                tvals = [d.value for d in prog.reaching(fn, tv.id, tv)] if isinstance(tv, ast.Name) else [tv]
                okv = okv and bool(tvals) and all(isinstance(x, ast.Call) and A.callee_name(x) == "Transform" and len(x.args) == 1 and isinstance(x.args[0], ast.Starred)
                                                  and T(x.args[0].value).endswith(".transformation") for x in tvals)
                if okv and fn is not aj:
                    # anchor and component come from the same (anchor, component) pair
                    cn = T(tvals[0].args[0].value).rsplit(".", 1)[0]
                    an = T(ax.value)
                    pair_defs = [d for d in prog.reaching(fn, an, ax.value)] if isinstance(ax.value, ast.Name) else []
                    okv = bool(pair_defs) and all(d.target is not None and cn in A.target_names(d.target) for d in pair_defs)
            ok = ok and okv
        chk.ob("R15.4", f"{fn.short}|position = Transform(*component.transformation).transformPoint((anchor.x, anchor.y)) of one (anchor, component) pair", ok, where(fn), detail=f"{len(sts)} store(s)",
               message=f"{fn.short}: a propagated anchor is not the base anchor mapped through the transformation of the component it came from (x/y swapped, wrong component, or no transformation)")
    # (e) the recursion reaches bases first and 'processed' stops repeated work
    rec = [c for c in calls_named(f, "_propagate_glyph_anchors")]
    ok = len(rec) == 1 and prog.cfg(f).exists_path(prog.cfg(f).node_of(rec[0]), [prog.cfg(f).node_of(add[0])])
    if ok:
        # every component's base is resolved first, marks included (a mark that is itself a composite gets its own anchors that way):
        # inside the component loop the recursive call depends on no test
        lp_ = [a_ for a_ in ix.ancestors(rec[0]) if isinstance(a_, ast.For)]
        inner_ = [g for g in may_conds(prog, f, rec[0]) if g.kind in ("if", "boolop", "ifexp") and lp_ and any(a_ is lp_[0] for a_ in ix.ancestors(g.loc))]
        ok = bool(lp_) and T(lp_[0].iter).endswith(".components") and not inner_
    chk.ob("R15.4", f"{f.short}|bases are processed before their anchors are read", ok, where(f, rec[0]) if rec else where(f), detail="recursive call precedes the collection", nontrivial=False,
           message=f"{f.short}: a composite reads its base's anchors before the base itself received propagated anchors")
    # (f) a component is a base or a mark, never both: the two work lists partition the components
    base_l = T(add[0].args[2])
    adj = [c for c in calls_named(f, "_adjust_anchors")]
    need(len(adj) == 1, f"cannot interpret {f.short}: _adjust_anchors call")
    aloop = [a for a in ix.ancestors(adj[0]) if isinstance(a, ast.For)]
    need(len(aloop) == 1 and isinstance(aloop[0].iter, ast.Name), f"cannot interpret {f.short}: loop over the mark components")
    mark_l = aloop[0].iter.id
    apps = {l: [c for c in A.body_nodes(f.node) if isinstance(c, ast.Call) and isinstance(c.func, ast.Attribute) and c.func.attr == "append" and T(c.func.value) == l] for l in (base_l, mark_l)}
    rems = {l: [c for c in A.body_nodes(f.node) if isinstance(c, ast.Call) and isinstance(c.func, ast.Attribute) and c.func.attr == "remove" and T(c.func.value) == l] for l in (base_l, mark_l)}
    cfg = prog.cfg(f)
    bad = []

    def within(stmts, n):
        return any(n is x for st_ in stmts for x in ast.walk(st_))
    for c in apps[base_l]:
        for c2 in apps[mark_l]:
            if T(c2.args[0]) != T(c.args[0]):
                continue
            # opposite branches of one classification test: exclusive per component
            if any(isinstance(i_, ast.If) and ((within(i_.body, c) and within(i_.orelse, c2)) or (within(i_.body, c2) and within(i_.orelse, c))) for i_ in ast.walk(f.node)):
                continue
            later, other = (c, mark_l) if (c.lineno, c.col_offset) > (c2.lineno, c2.col_offset) else (c2, base_l)
            if not any(T(r_.args[0]) == T(later.args[0]) and cfg.dominates(cfg.node_of(r_), cfg.node_of(later)) for r_ in rems[other]):
                bad.append(T(later))
    chk.ob("R15.4", f"{f.short}|base and mark components partition the components (a promoted mark is removed from the marks)", bool(apps[base_l]) and bool(apps[mark_l]) and not bad, where(f),
           detail=f"{len(apps[base_l])}+{len(apps[mark_l])} append(s), {len(rems[mark_l])} removal(s)",
           message=f"{f.short}: a component can be handled both as base and as mark ({bad}): its own anchors then override the adjustments of the other marks")
    # (g) which mark of a mark-ligature becomes the base is decided on the components AS PLACED: the bounds helper measures the
    #     component itself (component.bounds, or the component drawn into a BoundsPen), never its untransformed base glyph
    bf = ix.get_func(f"{PA}:_bounds")
    cp = bf.params()[0]
    rets = A.returns_of(bf.node)
    need(rets, f"cannot interpret {bf.short}")
    okb = True
    why = []
    for r_ in rets:
        v_ = r_.value
        core = v_.value if isinstance(v_, ast.Subscript) else v_
        if isinstance(core, ast.Attribute) and core.attr == "bounds" and isinstance(core.value, ast.Name):
            if core.value.id == cp:
                why.append("component.bounds")
                continue
            # bounds of a pen: every draw into that pen is the component's own draw
            pen = core.value.id
            dr = [c_ for c_ in A.body_nodes(bf.node) if isinstance(c_, ast.Call) and isinstance(c_.func, ast.Attribute) and c_.func.attr in ("draw", "drawPoints") and c_.args and T(c_.args[0]) == pen]
            if dr and all(T(c_.func.value) == cp for c_ in dr):
                why.append("component.draw(BoundsPen)")
                continue
        okb = False
        why.append(f"`{T(v_, 50)}`")
    chk.ob("R15.4", f"{bf.short}|the base of a mark ligature is chosen from the components as placed (component bounds, transformation included)", okb, where(bf), detail=", ".join(why),
           message=f"{bf.short}: the bounds used to pick the base of a mark ligature are not those of the component as placed ({', '.join(why)}): a flipped / scaled / rotated component is "
                   f"measured without its transformation and the wrong mark's anchors are propagated")
    chk.minimum("R15.4", 10)


# ----------------------------------------------------------------------------- R15.5
def r155(prog, chk):
    ix = prog.ix
    tf = ix.get_class(f"{TR}.TransformationsFilter")
    f = tf.methods["filter"]
    cfg = prog.cfg(f)
    rep = [c for c in calls_named(f, "replay")]
    recs = [c for c in A.body_nodes(f.node) if isinstance(c, ast.Call) and T(c.func) == "self.filter"]
    need(len(rep) == 1, f"cannot interpret {f.short}")
    if len(recs) != 1:
        chk.ob("R15.5", f"{f.short}|included bases are transformed before the composite is replayed", False, where(f),
               message=f"{f.short}: included base glyphs are not transformed (recursively) before the composite that refers to them is replayed")
        return
    loop = [a for a in ix.ancestors(recs[0]) if isinstance(a, ast.For)]
    ok = len(loop) == 1 and T(loop[0].iter) == f"{f.params()[1]}.components" and cfg.dominates(cfg.node_of(loop[0]), cfg.node_of(rep[0]))
    chk.ob("R15.5", f"{f.short}|included bases are transformed before the composite is replayed", ok, where(f, recs[0]), detail="for component in glyph.components: ... self.filter(base_glyph) ... rec.replay(filterpen)",
           message=f"{f.short}: the composite is replayed before its included bases have been transformed (their compensation is then missing)")
    # every glyph that gets past the nothing-to-do return is redrawn through the transforming pen, has its anchors mapped and its
    # advance transformed: none of the three is skipped for some glyphs (a composite on transformed bases needs its component
    # offsets compensated, M o C o M^-1, even for a plain offset when the component is flipped / rotated / scaled)
    steps = {"replay": rep[0]}
    anchors_loop = [n for n in A.body_nodes(f.node) if isinstance(n, ast.For) and T(n.iter) == f"{f.params()[1]}.anchors"]
    wstore = [s_ for s_, t, v in attr_stores(f, "width")]
    if len(anchors_loop) == 1:
        steps["anchors"] = anchors_loop[0]
    if len(wstore) == 1:
        steps["advance"] = wstore[0]
    cond_steps = {k: [T(g.test, 50) for g in may_conds(prog, f, n) if g.kind in ("if", "boolop", "ifexp", "while", "for") and not is_early_exit_guard(prog, f, g)] for k, n in steps.items()}
    ok = len(steps) == 3 and not any(cond_steps.values())
    chk.ob("R15.5", f"{f.short}|outline replay, anchor mapping and advance are applied to every glyph that is transformed at all", ok, where(f, rep[0]),
           detail=f"unconditional after the nothing-to-do return: {sorted(steps)}",
           message=f"{f.short}: {', '.join(k for k, v in cond_steps.items() if v) or 'a step'} is skipped for some glyphs ({[v for v in cond_steps.values() if v][:1]}): a composite on "
                   f"already transformed bases needs its component offsets compensated by the pen even when the filter only shifts (flipped / rotated / scaled components move "
                   f"differently from their bases)")
    adds = [c for c in calls_named(f, "add") if "modified" in T(c.func.value)]
    ok = len(adds) == 1
    if ok:
        fs_ = facts(prog, f, adds[0])
        bname = T(adds[0].args[0])
        inc_true = any(o == "truthy" and l.startswith("self.include(") for o, l, r in fs_)
        rec_true = any(o == "truthy" and l == T(recs[0]) for o, l, r in fs_)
        # the recursion only runs for included bases (short circuit: include(...) and filter(...))
        inc_first = any(g.polarity is True and isinstance(g.test, ast.Call) and T(g.test.func) == "self.include" for g in may_conds(prog, f, recs[0]))
        not_yet = any(o == "notin" and l == bname and "modified" in r for o, l, r in fs_) and any(o == "notin" and l == bname and "modified" in r for o, l, r in facts(prog, f, recs[0]))
        ok = inc_true and rec_true and inc_first and not_yet
    chk.ob("R15.5", f"{f.short}|a base is marked modified iff it is included and was transformed; already modified bases are skipped", ok, where(f, adds[0]) if adds else where(f), detail="if self.include(base) and self.filter(base): modified.add(name)",
           message=f"{f.short}: bases are marked as transformed without being transformed (or transformed twice): component compensation is wrong")
    pen = [c for c in A.body_nodes(f.node) if isinstance(c, ast.Call) and A.callee_name(c) == "TransformPointPen"]
    ok = len(pen) == 1 and len(pen[0].args) == 3 and "modified" in T(pen[0].args[2])
    if ok:
        m0 = pen[0].args[1]
        ds = prog.reaching(f, m0.id, m0) if isinstance(m0, ast.Name) else []
        ok = len(ds) == 1 and T(ds[0].value) == "self.context.matrix" and T(rep[0].args[0]) in [T(ix.enclosing_stmt(pen[0]).targets[0])]
    chk.ob("R15.5", f"{f.short}|the outline is replayed through TransformPointPen(out, matrix, modified)", ok, where(f, pen[0]) if pen else where(f), detail=T(pen[0]) if pen else "",
           message=f"{f.short}: the recorded outline is not replayed through the transforming pen with the filter matrix and the set of transformed bases")
    # anchors, width, height
    an = [s for s in A.stmts_of(f.node) if isinstance(s, ast.Assign) and isinstance(s.value, ast.Call) and isinstance(s.value.func, ast.Attribute) and s.value.func.attr == "transformPoint"]
    ok = len(an) == 1
    if ok:
        lp = [a for a in ix.ancestors(an[0]) if isinstance(a, ast.For)]
        ok = len(lp) == 1 and T(lp[0].iter) == f"{f.params()[1]}.anchors" and not lp[0].orelse
        v = A.target_names(lp[0].target)[0] if lp else "?"
        ok = ok and T(an[0].targets[0]) == f"({v}.x, {v}.y)" and T(an[0].value.args[0]) == f"({v}.x, {v}.y)" and not [x for x in ast.walk(lp[0]) if isinstance(x, (ast.If, ast.Continue, ast.Break))]
    chk.ob("R15.5", f"{f.short}|every anchor is mapped as a point, x to x and y to y", ok, where(f, an[0]) if an else where(f), detail="a.x, a.y = matrix.transformPoint((a.x, a.y))",
           message=f"{f.short}: anchors are not all mapped through the matrix as points")
    wv = [s for s in A.stmts_of(f.node) if isinstance(s, ast.Assign) and isinstance(s.value, ast.Call) and isinstance(s.value.func, ast.Attribute) and s.value.func.attr == "transformVector"]
    g = f.params()[1]
    ok = len(wv) == 1 and T(wv[0].targets[0]) == f"({g}.width, {g}.height)" and T(wv[0].value.args[0]) == f"({g}.width, {g}.height)" and not [c_ for c_ in may_conds(prog, f, wv[0]) if not is_early_exit_guard(prog, f, c_)]
    chk.ob("R15.5", f"{f.short}|advance width and height are mapped as a vector (offsets do not apply)", ok, where(f, wv[0]) if wv else where(f), detail="glyph.width, glyph.height = matrix.transformVector((glyph.width, glyph.height))",
           message=f"{f.short}: the advance is not mapped with transformVector (a translation would widen every glyph, or the advance is not scaled)")
    # pen compensation
    tp = ix.get_class(f"{TR}.TransformPointPen")
    ac = tp.methods["addComponent"]
    st = [s for s in A.stmts_of(ac.node) if isinstance(s, ast.Assign) and T(s.targets[0]) == ac.params()[2]]
    ok = len(st) == 1 and any(o == "in" and l == ac.params()[1] and r == "self.modified" for o, l, r in facts(prog, ac, st[0]))
    if ok:
        v = st[0].value
        ok = isinstance(v, ast.Call) and isinstance(v.func, ast.Attribute) and v.func.attr == "transform" and T(v.args[0]) == "self._inverted" and isinstance(v.func.value, ast.Call) and A.callee_name(v.func.value) == "Transform" \
            and isinstance(v.func.value.args[0], ast.Starred) and T(v.func.value.args[0].value) == ac.params()[2]
    chk.ob("R15.5", f"{ac.short}|components of transformed bases get Transform(*t).transform(inverse)", ok, where(ac, st[0]) if st else where(ac), detail=T(st[0].value) if st else "",
           message=f"{ac.short}: a component whose base was already transformed is not compensated with the inverse matrix on the inner side (the base would be transformed twice)")
    init = tp.methods["__init__"]
    ok = any(T(v) == "self._transformation.inverse()" for s, t, v in attr_stores(init, "_inverted"))
    sup = [c for c in A.body_nodes(ac.node) if isinstance(c, ast.Call) and "super()" in T(c.func) and c.func.attr == "addComponent"]
    oks = len(sup) == 1 and not may_conds(prog, ac, sup[0]) and T(sup[0].args[1]) == ac.params()[2]
    chk.ob("R15.5", f"{tp.name}|inverse of the pen's own matrix; every component still goes through the transforming parent", ok and oks, where(init), detail="self._inverted = self._transformation.inverse()",
           message=f"{tp.name}: the compensation is not the inverse of the pen's matrix, or compensated components bypass the parent pen")
    # matrix build order (in set_context itself, or in the helper method whose result it stores as the matrix)
    sc = tf.methods["set_context"]
    st = [(s, t, v) for s, t, v in attr_stores(sc, "matrix")]
    bf, via_helper = sc, False
    if len(st) == 1:
        v = st[0][2]
        if isinstance(v, ast.Name):
            ds = prog.reaching(sc, v.id, v)
            if len(ds) == 1 and ds[0].value is not None:
                v = ds[0].value
        if isinstance(v, ast.Call) and isinstance(v.func, ast.Attribute) and T(v.func.value) == "self" and v.func.attr in tf.methods:
            bf, via_helper = tf.methods[v.func.attr], True
    seq = []
    for s in A.stmts_of(bf.node):
        if isinstance(s, ast.Assign) and isinstance(s.value, ast.Call) and isinstance(s.value.func, ast.Attribute) and isinstance(s.value.func.value, ast.Name) and isinstance(s.targets[0], ast.Name) \
                and s.targets[0].id == s.value.func.value.id and s.value.func.attr in ("translate", "scale", "skew", "rotate", "transform"):
            seq.append(s.value.func.attr)
    ok = seq == ["translate", "translate", "scale", "skew", "translate"]
    m_init = [s for s in A.stmts_of(bf.node) if isinstance(s, ast.Assign) and isinstance(s.value, (ast.Name, ast.Attribute)) and ext_name(prog, bf, s.value) == "fontTools.misc.transform.Identity"]
    if via_helper:
        rets = A.returns_of(bf.node)
        ok = ok and len(m_init) == 1 and len(st) == 1 and bool(rets) and all(r.value is not None and T(r.value) == m_init[0].targets[0].id for r in rets)
    else:
        ok = ok and len(m_init) == 1 and len(st) == 1 and T(st[0][2]) == m_init[0].targets[0].id
    chk.ob("R15.5", f"{sc.short}|matrix = offset, then (to origin, scale, slant, back) built with the Transform algebra from Identity", ok, where(sc), detail=" -> ".join(seq),
           message=f"{sc.short}: the order in which offset / origin shift / scale / slant are composed changed ({seq})")
    chk.minimum("R15.5", 9)


# ----------------------------------------------------------------------------- R15.9
def r159(prog, chk):
    """propagateAnchors is a *pre* filter (glyphsLib writes it with pre=True): it must see composites while they still have
    components.  The built-in decomposition of mixed / non-matching composites therefore comes after the pre-filters."""
    ix = prog.ix
    f = ix.get_method("ufo2ft.preProcessor.TTFInterpolatablePreProcessor", "process", own=True)
    cfg = prog.cfg(f)
    pre = [lp for lp in A.body_nodes(f.node) if isinstance(lp, ast.For) and "self.preFilters" in T(lp.iter)]
    need(len(pre) == 1, f"cannot interpret {f.short}: loop over the pre-filters")

    def decomposing_calls(fn, depth=0):
        out = []
        for c in A.body_nodes(fn.node):
            if not isinstance(c, ast.Call):
                continue
            if any(isinstance(x, ast.Call) and A.callee_name(x) in ("DecomposeComponentsIFilter", "DecomposeComponentsFilter", "DecomposeTransformedComponentsIFilter", "FlattenComponentsIFilter")
                   for x in [c] + list(c.args)) or A.callee_name(c) == "decomposeCompositeGlyph":
                out.append(c)
            elif depth < 1 and isinstance(c.func, ast.Attribute) and T(c.func.value) == "self" and c.func.attr not in ("_run",):
                try:
                    ts, how = prog.resolve_callee(fn, c.func)
                except Exception:
                    continue
                if how in ("exact", "cha") and any(isinstance(t, FuncInfo) and decomposing_calls(t, depth + 1) for t in ts):
                    out.append(c)
        return out
    dec = decomposing_calls(f)
    need(dec, f"cannot interpret {f.short}: built-in decomposition step")
    pn = cfg.node_of(pre[0])
    early = [c for c in dec if not cfg.dominates(pn, cfg.node_of(c))]
    chk.ob("R15.9", f"{f.short}|no built-in decomposition before the pre-filters have run", not early, where(f, early[0]) if early else where(f, pre[0]), detail=f"{len(dec)} decomposition step(s), all after `for ... in self.preFilters`",
           message=f"{f.short}: `{T(early[0], 60) if early else ''}` can run before the custom pre-filters: composites that get decomposed there have no components left when "
                   f"propagateAnchors (a pre-filter) looks at them, so they silently receive none of their bases' anchors")
    chk.minimum("R15.9", 1)


MUTANTS = [
    M("mixed composites decomposed before the pre-filters run (seeded C15l)", "ufo2ft/preProcessor.py", "TTFInterpolatablePreProcessor.process",
      "for funcs in itertools.zip_longest(*self.preFilters):\n    self._run(*funcs)",
      "early = {gname for glyphSet in self.glyphSets for gname, glyph in glyphSet.items() if len(glyph) > 0 and glyph.components}\nif early:\n    self._run(DecomposeComponentsIFilter(include=early))\nfor funcs in itertools.zip_longest(*self.preFilters):\n    self._run(*funcs)", rule="R15.9"),
    M("flattening memoised in a dict kept on the filter object and filled by the helper (seeded C15j)", "ufo2ft/filters/flattenComponents.py", "FlattenComponentsFilter.filter",
      "return _flattenGlyphComponents(glyph, self.context.glyphSet)", "return _note(_flattenGlyphComponents(glyph, self.context.glyphSet), glyph, self._flattened)", rule="R15.8",
      also=(("ufo2ft/filters/flattenComponents.py", "FlattenComponentsFilter", "<add-method>", "def start(self):\n    self._flattened = {}\n"),
            ("ufo2ft/filters/flattenComponents.py", "", "<append-module>", "def _note(result, glyph, cache):\n    cache[glyph.name] = result\n    return result\n"))),
    M("pure composites on shifted bases are not redrawn (seeded C15i)", "ufo2ft/filters/transformations.py", "TransformationsFilter.filter",
      "rec.replay(filterpen)", "if len(glyph) or any(c.baseGlyph not in modified for c in glyph.components):\n    rec.replay(filterpen)", rule="R15.5"),
    M("advance only transformed for glyphs with an outline", "ufo2ft/filters/transformations.py", "TransformationsFilter.filter",
      "glyph.width, glyph.height = matrix.transformVector((glyph.width, glyph.height))", "if len(glyph):\n    glyph.width, glyph.height = matrix.transformVector((glyph.width, glyph.height))", rule="R15.5"),
    M("static decompose filter re-implemented with a recording pen (seeded C02c)", "ufo2ft/filters/decomposeComponents.py", "DecomposeComponentsFilter.filter",
      "decomposeCompositeGlyph(glyph, self.context.glyphSet)",
      "rec = DecomposingRecordingPointPen(self.context.glyphSet)\nglyph.drawPoints(rec)\nglyph.clearComponents()\nrec.replay(glyph.getPointPen())", rule="R15.6"),
    M("decomposition keeps the drawn component", "ufo2ft/util.py", "decomposeCompositeGlyph", "glyph.removeComponent(component)", "pass", rule="R15.1b"),
    M("components with any offset count as transformed", "ufo2ft/filters/decomposeTransformedComponents.py", "_isTransformed",
      "component.transformation[:4] != IDENTITY_2x2", "tuple(component.transformation) != tuple(Identity)", rule="R15.2"),
    M("interpolatable sibling decomposes only when all masters are transformed", "ufo2ft/filters/decomposeTransformedComponents.py", "DecomposeTransformedComponentsIFilter.filter",
      "if not any((any((_isTransformed(c) for c in g.components)) for g in glyphs)):\n    return False\nreturn super().filter(glyphName, glyphs)",
      "if not all((any((_isTransformed(c) for c in g.components)) for g in glyphs)):\n    return False\nreturn super().filter(glyphName, glyphs)", rule="R15.2"),
    M("nested offset axes swapped", "ufo2ft/filters/flattenComponents.py", "_flattenComponent", "flat_tr.translate(tr.dx, tr.dy)", "flat_tr.translate(tr.dy, tr.dx)", rule="R15.3"),
    M("component bounds measured on the untransformed base glyph (seeded C15e)", "ufo2ft/filters/propagateAnchors.py", "_bounds",
      "component.draw(pen)", "glyph_set[component.baseGlyph].draw(pen)", rule="R15.4"),
    M("mark components are not resolved before their anchors are read (seeded C15f)", "ufo2ft/filters/propagateAnchors.py", "_propagate_glyph_anchors",
      "_propagate_glyph_anchors(glyphSet, glyph, processed, modified, categories)", "if not any(a.name.startswith('_') for a in glyph.anchors):\n    _propagate_glyph_anchors(glyphSet, glyph, processed, modified, categories)", rule="R15.4"),
    M("promoted mark stays in the mark list (mutation scan k=146)", "ufo2ft/filters/propagateAnchors.py", "_propagate_glyph_anchors",
      "mark_components.remove(component)", "pass", rule="R15.4"),
    M("propagation overrides existing anchors", "ufo2ft/filters/propagateAnchors.py", "_propagate_glyph_anchors",
      "if not any((a.name.startswith(anchor_name) for a in composite.anchors)):\n    _get_anchor_data(to_add, glyphSet, base_components, anchor_name)",
      "_get_anchor_data(to_add, glyphSet, base_components, anchor_name)", rule="R15.4"),
    M("exact-name test lets ligature anchors be duplicated", "ufo2ft/filters/propagateAnchors.py", "_propagate_glyph_anchors",
      "a.name.startswith(anchor_name)", "a.name == anchor_name", rule="R15.4"),
    M("mark adjustment creates entries", "ufo2ft/filters/propagateAnchors.py", "_adjust_anchors",
      "anchor.name in anchor_data and any((a.name == '_' + anchor.name for a in glyph.anchors))", "any((a.name == '_' + anchor.name for a in glyph.anchors))", rule="R15.4"),
    M("anchor not mapped through the component", "ufo2ft/filters/propagateAnchors.py", "_get_anchor_data",
      "anchor_data[anchor.name] = t.transformPoint((anchor.x, anchor.y))", "anchor_data[anchor.name] = (anchor.x, anchor.y)", rule="R15.4"),
    M("anchor coordinates swapped", "ufo2ft/filters/propagateAnchors.py", "_adjust_anchors",
      "t.transformPoint((anchor.x, anchor.y))", "t.transformPoint((anchor.y, anchor.x))", rule="R15.4"),
    M("existing anchors cleared before appending", "ufo2ft/filters/propagateAnchors.py", "_propagate_glyph_anchors",
      "if to_add:\n    modified.add(composite.name)", "if to_add:\n    modified.add(composite.name)\n    composite.clearAnchors()", rule="R15.4"),
    M("composite replayed before its bases are transformed", "ufo2ft/filters/transformations.py", "TransformationsFilter.filter",
      "if self.include(base_glyph) and self.filter(base_glyph):\n    modified.add(base_name)", "if self.include(base_glyph):\n    modified.add(base_name)", rule="R15.5"),
    M("compensation multiplied on the wrong side", "ufo2ft/filters/transformations.py", "TransformPointPen.addComponent",
      "Transform(*transformation).transform(self._inverted)", "self._inverted.transform(Transform(*transformation))", rule="R15.5"),
    M("compensation applied to every component", "ufo2ft/filters/transformations.py", "TransformPointPen.addComponent",
      "if baseGlyph in self.modified:\n    transformation = Transform(*transformation).transform(self._inverted)", "transformation = Transform(*transformation).transform(self._inverted)", rule="R15.5"),
    M("advance mapped as a point", "ufo2ft/filters/transformations.py", "TransformationsFilter.filter",
      "matrix.transformVector((glyph.width, glyph.height))", "matrix.transformPoint((glyph.width, glyph.height))", rule="R15.5"),
    M("anchors of glyphs without outline not mapped", "ufo2ft/filters/transformations.py", "TransformationsFilter.filter",
      "for a in glyph.anchors:\n    a.x, a.y = matrix.transformPoint((a.x, a.y))", "for a in glyph.anchors:\n    if len(glyph):\n        a.x, a.y = matrix.transformPoint((a.x, a.y))", rule="R15.5"),
    M("scale applied before the origin shift", "ufo2ft/filters/transformations.py", "TransformationsFilter.set_context",
      "if origin_height != 0:\n    m = m.translate(0, origin_height)\nif sx != 100 or sy != 100:\n    m = m.scale(sx / 100, sy / 100)",
      "if sx != 100 or sy != 100:\n    m = m.scale(sx / 100, sy / 100)\nif origin_height != 0:\n    m = m.translate(0, origin_height)", rule="R15.5"),
]
