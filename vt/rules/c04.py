"""C04 - derived fields are consistent with the stored glyph data (structural clauses only;
the save / reload / re-save byte round trip is fontTools' and is not decided)."""

from __future__ import annotations

import ast
from typing import Dict, List, Optional, Set, Tuple

from ..core import astutil as A
from ..core.index import AnalysisError, FuncInfo
from ..selftest import M
from .common import is_early_exit_guard, ext_name, branch_values, entails, BASE_OUTLINE, OTF_OUTLINE, TTF_OUTLINE, T, attr_stores, calls_named, conds, every_origin, facts, may_conds, need, subscript_stores, where
from .rounding import is_otround


def run(prog, chk):
    chk.decided += [
        "metrics tables are built before the header tables that summarise them (hmtx before hhea, vmtx before vhea) (R04.1)",
        "hmtx / vmtx store, for every glyph of the compiled set, (otRound(advance), bearing) with bearing = xMin (resp. origin - yMax) of that glyph's box, 0 without a box (R04.2)",
        "hhea / vhea summarise exactly that table over the whole glyph order: every glyph's advance is counted (also glyphs without outline), bearings / extents only for glyphs with a box, extent = bearing + box size, second bearing = advance - bearing - box size, max/min with 0 for empty lists (R04.3)",
        "the long-metric count is the number of advances minus the trailing run equal to the last one (at least 1) (R04.4)",
        "font bounding box = union of all glyph boxes, head gets it rounded, xMin..yMax roles (R04.5)",
        "the metrics tables are only written by their own builders (R04.7)",
        "per-glyph records are computed from that glyph alone: no loop-carried variable feeds them (R04.8)",
        "OS/2 first / last character index = min / max of the mapped code points, last capped at 0xFFFF, 0xFFFF without code points; maxp.numGlyphs = number of glyphs in the glyph order; post 2.0 names follow the glyph order; VORG default = most frequent origin, records for the others (R04.6)",
        "a glyph loses its box only when the compiled glyph has no outline (all-zero box) (R04.9); no advance / vertical origin / box value is dropped or defaulted by a truthiness test (R04.10)",
    ]
    chk.decided += ["the CFF glyph box encloses the compiled outline: a box value is only rounded to nearest where the charstring pen rounds the coordinate too (tolerance >= 0.5, or the value within the "
                    "tolerance of its rounding - fontTools' roundFunc), otherwise minima are floored and maxima ceiled; pen and box use the same tolerance (R04.11)"]
    chk.decided += ["the final glyph names are unique (every name handed out by the production-name step is recorded before the next one is chosen): a duplicate name makes the saved font reload with another "
                    "glyph list, or merges two glyphs' CFF charstrings (R04.13 = R11.3 = R03.10)"]
    chk.decided += ["OS/2.xAvgCharWidth is derived from the compiled advances: fontTools' recalcAvgCharWidth is run on the font being built, after hmtx exists, and nothing stores the field by hand (R04.12)"]
    chk.decided += ["a field that the info-override pass copies onto the finished font (the lists in InfoCompiler.setupTable_*) is computed from glyph data (cmap, glyph set, boxes) only under a guard that the font being built has such data: the override pass builds the table for an empty glyph set and would otherwise overwrite the real value with the empty one (R04.14)"]
    chk.not_decided += ["save / reload / re-save byte identity (fontTools)", "glyph bounding box arithmetic (pens)", "values recalculated by fontTools at compile time (maxp for glyf, OS/2 indices)"]
    chk.guard(r041, prog, chk)
    chk.guard(r042, prog, chk)
    chk.guard(r043, prog, chk)
    chk.guard(r044, prog, chk)
    chk.guard(r045, prog, chk)
    chk.guard(r046, prog, chk)
    chk.guard(r047, prog, chk)
    chk.guard(r048, prog, chk)
    chk.guard(r049, prog, chk)
    chk.guard(r0410, prog, chk)
    chk.guard(r0411, prog, chk)
    chk.guard(r0412, prog, chk)
    chk.guard(r0414, prog, chk)
    from .c11 import r113
    chk.guard(r113, prog, chk, "R04.13")


# ----------------------------------------------------------------------------- R04.1
def r041(prog, chk):
    ix = prog.ix
    c = ix.get_method(BASE_OUTLINE, "compile", own=True)
    cfg = prog.cfg(c)
    for mtx, hea in (("setupTable_hmtx", "setupTable_hhea"), ("setupTable_vmtx", "setupTable_vhea")):
        a, b = calls_named(c, mtx), calls_named(c, hea)
        ok = len(a) == 1 and len(b) == 1 and cfg.dominates(cfg.node_of(a[0]), cfg.node_of(b[0]))
        chk.ob("R04.1", f"{c.short}|{mtx} before {hea}", ok, where(c), detail="the header reads the metrics table that was just built",
               message=f"{c.short}: {hea} can run before {mtx}: the header's maxima / counts are computed from a missing (or stale) metrics table")
    h = ix.get_method(BASE_OUTLINE, "_setupTable_hhea_or_vhea", own=True)
    mt = [s for s in A.stmts_of(h.node) if isinstance(s, ast.Assign) and isinstance(s.value, ast.Call) and T(s.value.func) == "self.otf.get"]
    ok = len(mt) == 1 and T(mt[0].value.args[0]) == f"{h.params()[1]}[0] + 'mtx'"
    chk.ob("R04.1", f"{h.short}|reads the metrics table of its own direction", ok, where(h), detail=T(mt[0].value) if mt else "", message=f"{h.short}: the header is not computed from the matching hmtx / vmtx table")
    for m, tag in (("setupTable_hhea", "'hhea'"), ("setupTable_vhea", "'vhea'")):
        f = ix.get_method(BASE_OUTLINE, m, own=True)
        cs = [x for x in calls_named(f, "_setupTable_hhea_or_vhea")]
        chk.ob("R04.1", f"{f.short}|builds {tag}", len(cs) == 1 and T(cs[0].args[0]) == tag, where(f), detail=T(cs[0]) if cs else "", nontrivial=False, message=f"{f.short} builds the wrong table")
    chk.minimum("R04.1", 5)


# ----------------------------------------------------------------------------- R04.2
def r042(prog, chk):
    ix = prog.ix
    for m, adv, side in (("setupTable_hmtx", "width", "xMin"), ("setupTable_vmtx", "height", "yMax")):
        f = ix.get_method(BASE_OUTLINE, m, own=True)
        lp = [n for n in A.body_nodes(f.node) if isinstance(n, ast.For)]
        need(len(lp) == 1, f"cannot interpret {f.short}")
        ok = T(lp[0].iter) == "self.allGlyphs.items()" and not [x for x in ast.walk(lp[0]) if isinstance(x, (ast.Continue, ast.Break))]
        gname, g = A.target_names(lp[0].target)
        st = [(s, t, v) for s, t, v in subscript_stores(f) if any(a is lp[0] for a in ix.ancestors(s))]
        ok = ok and len(st) == 1 and T(st[0][1].slice) == gname and isinstance(st[0][2], ast.Tuple) and len(st[0][2].elts) == 2
        chk.ob("R04.2", f"{f.short}|one (advance, bearing) record per glyph of the compiled set, none skipped", ok, where(f, lp[0]), detail=T(st[0][0]) if st else "",
               message=f"{f.short}: a glyph of the compiled set can be left without a metrics record (or gets another glyph's)")
        if not ok:
            continue
        a_, b_ = st[0][2].elts
        oka, _ = every_origin(prog, f, a_, lambda x, ff: is_otround(prog, ff, x) and T(x.args[0]) == f"{g}.{adv}", allow_const=False)
        chk.ob("R04.2", f"{f.short}|advance = otRound(glyph.{adv})", oka, where(f, st[0][0]), detail=f"otRound({g}.{adv})", message=f"{f.short}: the stored advance is not the rounded {adv} of the same glyph")
        # bearing from that glyph's own box
        be = b_ if adv == "width" else (b_.right if isinstance(b_, ast.BinOp) and isinstance(b_.op, ast.Sub) else None)
        bv = branch_values(prog, f, be) if be is not None else []
        okb = len(bv) == 2

        def own_box(nm):
            ds = prog.reaching(f, nm.id, nm) if isinstance(nm, ast.Name) else []
            return len(ds) == 1 and ds[0].value is not None and T(ds[0].value) == f"self.glyphBoundingBoxes[{gname}]"
        kinds = set()
        box_names = set()
        for v, fs in bv:
            if isinstance(v, ast.Attribute) and v.attr == side and own_box(v.value):
                bn = v.value.id
                box_names.add(bn)
                okb = okb and any((o == "truthy" and l == bn) or (o == "isnot" and l == bn and r == "None") for o, l, r in fs)
                kinds.add("box")
        for v, fs in bv:
            if isinstance(v, ast.Attribute):
                continue
            if A.is_const(v, 0):
                okb = okb and any((o == "falsy" and l in box_names) or (o == "is" and l in box_names and r == "None") for o, l, r in fs)
                kinds.add("zero")
            else:
                okb = False
        okb = okb and kinds == {"box", "zero"}
        chk.ob("R04.2", f"{f.short}|bearing from the same glyph's box ({side}), 0 when it has none", okb, where(f, st[0][0]), detail=T(b_),
               message=f"{f.short}: the side bearing is not derived from the {side} of the glyph's own bounding box (0 for empty glyphs)")
    chk.minimum("R04.2", 6)


# ----------------------------------------------------------------------------- R04.3
def r043(prog, chk):
    ix = prog.ix
    h = ix.get_method(BASE_OUTLINE, "_setupTable_hhea_or_vhea", own=True)
    lps = [n for n in A.body_nodes(h.node) if isinstance(n, ast.For) and T(n.iter) == "self.glyphOrder"]
    need(len(lps) == 1, f"cannot interpret {h.short}: glyph loop")
    lp = lps[0]
    gname = A.target_names(lp.target)[0]
    unp = [s for s in lp.body if isinstance(s, ast.Assign) and isinstance(s.targets[0], ast.Tuple) and isinstance(s.value, ast.Subscript) and T(s.value.slice) == gname]
    need(len(unp) == 1, f"cannot interpret {h.short}: metrics record")
    adv, fsb = [e.id for e in unp[0].targets[0].elts]
    mtx = T(unp[0].value.value)
    apps = {}
    for c in A.calls_in(lp):
        if isinstance(c.func, ast.Attribute) and c.func.attr == "append":
            apps[T(c.func.value)] = c
    # which list receives what
    advl = [k for k, c in apps.items() if T(c.args[0]) == adv]
    ok = len(advl) == 1
    if ok:
        c = apps[advl[0]]
        # appended for every glyph: in the loop body directly, before the box test
        st = ix.enclosing_stmt(c)
        skip = [s for s in lp.body if isinstance(s, ast.If) and any(isinstance(x, ast.Continue) for x in s.body)]
        ok = st in lp.body and (not skip or lp.body.index(st) < lp.body.index(skip[0]))
    chk.ob("R04.3", f"{h.short}|every glyph's advance is counted, also glyphs without outline", ok, where(h, lp), detail=f"{advl}.append({adv}) before the bounds test",
           message=f"{h.short}: advances of glyphs without a bounding box are left out: the maximum advance and the long-metric count no longer match the metrics table")
    skip = [s for s in lp.body if isinstance(s, ast.If) and any(isinstance(x, ast.Continue) for x in s.body)]
    ok = len(skip) == 1 and isinstance(skip[0].test, ast.Compare) and isinstance(skip[0].test.ops[0], ast.Is) and A.is_const(skip[0].test.comparators[0], None)
    if ok:
        bn = T(skip[0].test.left)
        bdef = [s for s in lp.body if isinstance(s, ast.Assign) and T(s.targets[0]) == bn]
        ok = len(bdef) == 1 and T(bdef[0].value) == f"self.glyphBoundingBoxes[{gname}]"
    chk.ob("R04.3", f"{h.short}|bearings and extents only for glyphs that have a box (their own)", ok, where(h, lp), detail="bounds = self.glyphBoundingBoxes[glyphName]; if bounds is None: continue",
           message=f"{h.short}: glyphs without outline take part in the minimum bearings / maximum extent (or another glyph's box is used)")
    # formulas, per direction
    ext = [s for s in ast.walk(lp) if isinstance(s, ast.Assign) and isinstance(s.value, ast.BinOp) and isinstance(s.value.op, ast.Add) and T(s.value.left) == fsb]
    ok = len(ext) == 2 and len({T(s.targets[0]) for s in ext}) == 1
    bas = [s for s in ast.walk(lp) if isinstance(s, ast.Assign) and isinstance(s.value, ast.BinOp) and isinstance(s.value.op, ast.Sub) and isinstance(s.value.left, ast.Attribute) and isinstance(s.value.right, ast.Attribute)]
    okb = sorted((s.value.left.attr, s.value.right.attr) for s in bas) == [("xMax", "xMin"), ("yMax", "yMin")] and len({T(s.targets[0]) for s in bas}) == 1
    if ok and okb:
        ba = T(bas[0].targets[0])
        ok = all(T(s.value.right) == ba for s in ext)
        for s in bas:
            fs = facts(prog, h, s)
            hor = s.value.left.attr == "xMax"
            okb = okb and any((o == "truthy") == hor and "isHhea" in l for o, l, r in fs if o in ("truthy", "falsy"))
    chk.ob("R04.3", f"{h.short}|extent = bearing + box size (x for hhea, y for vhea)", ok and okb, where(h, lp), detail="boundsAdvance = max - min; extent = firstSideBearing + boundsAdvance",
           message=f"{h.short}: the extent formula changed (hhea: lsb + (xMax - xMin); vhea: tsb + (yMax - yMin))")
    ssb = [s for s in ast.walk(lp) if isinstance(s, ast.Assign) and isinstance(s.value, ast.BinOp) and isinstance(s.value.op, ast.Sub) and isinstance(s.value.left, ast.BinOp)]
    ok = len(ssb) == 1 and bas and T(ssb[0].value) == f"{adv} - {fsb} - {T(bas[0].targets[0])}"
    chk.ob("R04.3", f"{h.short}|second bearing = advance - first bearing - box size", ok, where(h, lp), detail=T(ssb[0].value) if ssb else "", message=f"{h.short}: the right / bottom side bearing formula changed")
    # list -> header field table
    roles = {}
    for k, c in apps.items():
        roles[T(c.args[0])] = k
    want = [("advance", "max", adv), ("SideBearing", "min", fsb), ("SideBearing", "min", T(ssb[0].targets[0]) if ssb else "?"), ("MaxExtent", "max", T(ext[0].targets[0]) if ext else "?")]
    sets = [c for c in A.body_nodes(h.node) if isinstance(c, ast.Call) and isinstance(c.func, ast.Name) and c.func.id == "setattr" and len(c.args) == 3 and isinstance(c.args[2], ast.IfExp)]
    got = []
    for c in sets:
        v = c.args[2]
        fn = A.callee_name(v.body) if isinstance(v.body, ast.Call) else "?"
        lst = T(v.body.args[0]) if isinstance(v.body, ast.Call) and v.body.args else "?"
        okv = T(v.test) == lst and A.is_const(v.orelse, 0)
        key = [w for w in ("advance", "SideBearing", "MaxExtent") if w in T(c.args[1])]
        got.append((key[0] if key else "?", fn, lst, okv))
    ok = len(got) == 4 and all(g[3] for g in got)
    if ok:
        for (wk, wf, src) in want:
            lst = roles.get(src)
            ok = ok and any(g[0] == wk and g[1] == wf and g[2] == lst for g in got)
    chk.ob("R04.3", f"{h.short}|advanceMax = max(advances), min bearings = min(...), maxExtent = max(extents), 0 for empty lists", ok, where(h), detail=str([(g[0], g[1], g[2]) for g in got]),
           message=f"{h.short}: a header field is not the max / min of the list that matches it")
    chk.minimum("R04.3", 5)


# ----------------------------------------------------------------------------- R04.4
def r044(prog, chk):
    ix = prog.ix
    h = ix.get_method(BASE_OUTLINE, "_setupTable_hhea_or_vhea", own=True)
    init = [s for s in A.stmts_of(h.node) if isinstance(s, ast.Assign) and isinstance(s.value, ast.Call) and A.callee_name(s.value) == "len"]
    need(len(init) == 1, f"cannot interpret {h.short}: long-metric count")
    n = init[0].targets[0].id
    advl = T(init[0].value.args[0])
    wl = [w for w in A.body_nodes(h.node) if isinstance(w, ast.While)]
    ok = len(wl) == 1
    if ok:
        w = wl[0]
        t = w.test
        last = [s for s in A.stmts_of(h.node) if isinstance(s, ast.Assign) and T(s.value) == f"{advl}[-1]"]
        ok = len(last) == 1 and isinstance(t, ast.Compare) and isinstance(t.ops[0], ast.Eq) and {T(t.left), T(t.comparators[0])} == {f"{advl}[{n} - 2]", last[0].targets[0].id}
        dec = [s for s in w.body if isinstance(s, ast.AugAssign) and isinstance(s.op, ast.Sub) and T(s.target) == n and A.is_const(s.value, 1)]
        stop = [s for s in w.body if isinstance(s, ast.If) and any(isinstance(x, ast.Break) for x in s.body) and T(s.test) in (f"{n} <= 1", f"{n} == 1", f"{n} < 2")]
        ok = ok and len(dec) == 1 and len(stop) == 1 and w.body.index(dec[0]) < w.body.index(stop[0])
        fs = facts(prog, h, w)
        ok = ok and any(o == "gt" and l == n and r == "1" for o, l, r in fs)
    chk.ob("R04.4", f"{h.short}|count = len(advances) minus the trailing run equal to the last advance, never below 1", ok, where(h, wl[0]) if wl else where(h),
           detail="while advances[n - 2] == lastAdvance: n -= 1; if n <= 1: break", message=f"{h.short}: the number of long metrics no longer matches how the metrics table is compressed (trailing equal advances)")
    st = [c for c in A.body_nodes(h.node) if isinstance(c, ast.Call) and isinstance(c.func, ast.Name) and c.func.id == "setattr" and "numberOf" in T(c.args[1])]
    ok = len(st) == 1 and T(st[0].args[2]) == n and "Metrics" in T(st[0].args[1])
    chk.ob("R04.4", f"{h.short}|stored as numberOf(H|V)Metrics", ok, where(h), detail=T(st[0], 80) if st else "", nontrivial=False, message=f"{h.short}: the count is not stored in numberOfHMetrics / numberOfVMetrics")
    chk.minimum("R04.4", 2)


# ----------------------------------------------------------------------------- R04.5
def r045(prog, chk):
    ix = prog.ix
    f = ix.get_method(BASE_OUTLINE, "makeFontBoundingBox", own=True)
    lp = [n for n in A.body_nodes(f.node) if isinstance(n, ast.For)]
    need(len(lp) == 1, f"cannot interpret {f.short}")
    gv = A.target_names(lp[0].target)[0]
    un = [c for c in A.calls_in(lp[0]) if A.callee_name(c) == "unionRect"]
    ok = T(lp[0].iter) == "self.glyphBoundingBoxes.values()" and len(un) == 1 and not [x for x in ast.walk(lp[0]) if isinstance(x, ast.Break)]
    if ok:
        st = ix.enclosing_stmt(un[0])
        acc = T(st.targets[0])
        ok = {T(a) for a in un[0].args} == {acc, gv}
        firsts = [s for s in ast.walk(lp[0]) if isinstance(s, ast.Assign) and T(s.targets[0]) == acc and T(s.value) == gv]
        ok = ok and len(firsts) == 1 and any(o == "is" and l == acc and r == "None" for o, l, r in facts(prog, f, firsts[0]))
        conts = [s for s in ast.walk(lp[0]) if isinstance(s, ast.Continue)]
        ok = ok and len(conts) == 1 and any(o == "is" and l == gv and r == "None" for o, l, r in facts(prog, f, conts[0]))
        rets = A.returns_of(f.node)
        ok = ok and len(rets) == 1 and T(rets[0].value) == acc
    chk.ob("R04.5", f"{f.short}|union of every glyph box (glyphs without box skipped)", ok, where(f), detail="fontBox = unionRect(fontBox, glyphBox)", message=f"{f.short}: the font bounding box is not the union of all glyph boxes")
    hd = ix.get_method(BASE_OUTLINE, "setupTable_head", own=True)
    unp = [s for s in A.stmts_of(hd.node) if isinstance(s, ast.Assign) and T(s.value) == "self.fontBoundingBox"]
    ok = len(unp) == 1 and isinstance(unp[0].targets[0], ast.Tuple) and len(unp[0].targets[0].elts) == 4
    if ok:
        names = [e.id for e in unp[0].targets[0].elts]
        for i, fld in enumerate(("xMin", "yMin", "xMax", "yMax")):
            st = [(s, t, v) for s, t, v in attr_stores(hd, fld)]
            ok = ok and len(st) == 1 and is_otround(prog, hd, st[0][2]) and T(st[0][2].args[0]) == names[i]
    chk.ob("R04.5", f"{hd.short}|head.xMin..yMax = rounded font box, in (xMin, yMin, xMax, yMax) order", ok, where(hd), detail="xMin, yMin, xMax, yMax = self.fontBoundingBox", message=f"{hd.short}: head's bounding box fields are not the rounded font bounding box in their own roles")
    chk.minimum("R04.5", 2)


# ----------------------------------------------------------------------------- R04.6
def r046(prog, chk):
    ix = prog.ix
    o = ix.get_method(BASE_OUTLINE, "setupTable_OS2", own=True)
    u = [s for s in A.stmts_of(o.node) if isinstance(s, ast.Assign) and isinstance(s.value, ast.ListComp) and "unicodeToGlyphNameMapping" in T(s.value)]
    need(len(u) == 1, f"cannot interpret {o.short}: code point list")
    un = u[0].targets[0].id
    fi_ = [(s, t, v) for s, t, v in attr_stores(o, "fsFirstCharIndex")] + [(s, t, v) for s, t, v in attr_stores(o, "usFirstCharIndex")]
    la = [(s, t, v) for s, t, v in attr_stores(o, "fsLastCharIndex")] + [(s, t, v) for s, t, v in attr_stores(o, "usLastCharIndex")]
    ok = len(fi_) == 1 and len(la) == 1
    if ok:
        cfg = prog.cfg(o)
        dmin = cfg.reaching_defs(T(fi_[0][2]), fi_[0][0])
        dmax = cfg.reaching_defs(T(la[0][2]), la[0][0])
        vmin = sorted(T(d.value) for d in dmin)
        vmax = sorted(T(d.value) for d in dmax)
        ok = vmin == sorted([f"min({un})", "65535"]) and vmax == sorted([f"max({un})", "65535"]) or (vmin == sorted([f"min({un})", "65535"]) and set(vmax) == {f"max({un})", "65535"})
        cap = [d for d in dmax if T(d.value) == "65535" and any(o_ == "gt" and r == "65535" for o_, l, r in facts(prog, o, d.binder))]
        ok = ok and len(cap) >= 1
        emp = [d for d in dmin if T(d.value) == "65535" and any(o_ == "falsy" and l == un for o_, l, r in facts(prog, o, d.binder))]
        ok = ok and len(emp) == 1
    chk.ob("R04.6", f"{o.short}|first / last char index = min / max of the mapped code points, last capped at 0xFFFF, 0xFFFF when there are none", ok, where(o), detail=f"min({un}) / max({un})",
           message=f"{o.short}: the OS/2 first / last character indices are not the minimum / maximum mapped code point (capped at 0xFFFF)")
    mp = [m for m in (ix.get_method(OTF_OUTLINE, "setupTable_maxp", own=True),)]
    for m in mp:
        st = [(s, t, v) for s, t, v in attr_stores(m, "numGlyphs")]
        ok = len(st) == 1 and T(st[0][2]) == "len(self.glyphOrder)"
        chk.ob("R04.6", f"{m.short}|maxp.numGlyphs = len(glyph order)", ok, where(m), detail=T(st[0][2]) if st else "", message=f"{m.short}: maxp.numGlyphs is not the number of glyphs in the glyph order")
    po = ix.get_method(TTF_OUTLINE, "setupTable_post", own=True)
    st = [(s, t, v) for s, t, v in attr_stores(po, "extraNames")]
    ok = len(st) == 1 and isinstance(st[0][2], ast.ListComp) and T(st[0][2].generators[0].iter) == "self.glyphOrder" and len(st[0][2].generators[0].ifs) == 1 and isinstance(st[0][2].generators[0].ifs[0], ast.Compare) and isinstance(st[0][2].generators[0].ifs[0].ops[0], ast.NotIn) \
        and T(st[0][2].generators[0].ifs[0].left) == T(st[0][2].elt) and ext_name(prog, po, st[0][2].generators[0].ifs[0].comparators[0]) == "fontTools.ttLib.standardGlyphOrder.standardGlyphOrder" \
        and any(T(v) == "self.glyphOrder" for s, t, v in attr_stores(po, "glyphOrder")) and any(A.is_const(v, 2.0) for s, t, v in attr_stores(po, "formatType"))
    chk.ob("R04.6", f"{po.short}|post 2.0 names = glyph order without the standard names, post.glyphOrder = the compiler's order", ok, where(po), detail=T(st[0][2], 80) if st else "", message=f"{po.short}: the post table's names do not follow the compiler's glyph order")
    vo = ix.get_method(BASE_OUTLINE, "setupTable_VORG", own=True)
    cnt = [s for s in A.stmts_of(vo.node) if isinstance(s, ast.Assign) and isinstance(s.value, ast.Call) and A.callee_name(s.value) == "Counter"]
    ok = len(cnt) == 1 and "self.allGlyphs.values()" in T(cnt[0].value) and "_getVerticalOrigin" in T(cnt[0].value)
    d = [(s, t, v) for s, t, v in attr_stores(vo, "defaultVertOriginY")]
    ok = ok and len(d) == 1 and T(d[0][2]) == f"{cnt[0].targets[0].id}.most_common(1)[0][0]"
    rec = [(s, t, v) for s, t, v in subscript_stores(vo) if "VOriginRecords" in T(t.value)]
    ok = ok and len(rec) == 1
    if ok:
        lp = [a for a in ix.ancestors(rec[0][0]) if isinstance(a, ast.For)]
        conts = [s for s in ast.walk(lp[0]) if isinstance(s, ast.Continue)]
        ok = len(lp) == 1 and T(lp[0].iter) == "self.allGlyphs.items()" and len(conts) == 1 and "defaultVertOriginY" in T(ix.parent(conts[0]).test) and isinstance(ix.parent(conts[0]).test.ops[0], ast.Eq) \
            and T(rec[0][1].slice) == A.target_names(lp[0].target)[0]
    nm = [(s, t, v) for s, t, v in attr_stores(vo, "numVertOriginYMetrics")]
    ok = ok and len(nm) == 1 and "len(" in T(nm[0][2]) and "VOriginRecords" in T(nm[0][2])
    chk.ob("R04.6", f"{vo.short}|default = most frequent origin over all glyphs; one record per glyph that differs; count = number of records", ok, where(vo), detail=T(d[0][2]) if d else "",
           message=f"{vo.short}: VORG's default / records / count do not agree with the glyphs' vertical origins")
    chk.minimum("R04.6", 4)


# ----------------------------------------------------------------------------- R04.7
METRICS_TAGS = ("hmtx", "vmtx")


def _is_metrics_table_expr(e: ast.AST) -> Optional[str]:
    if isinstance(e, ast.Subscript) and isinstance(e.slice, ast.Constant) and e.slice.value in METRICS_TAGS:
        return e.slice.value
    if isinstance(e, ast.Call) and A.callee_name(e) in ("newTable", "get") and e.args and isinstance(e.args[0], ast.Constant) and e.args[0].value in METRICS_TAGS:
        return e.args[0].value
    return None


def r047(prog, chk):
    """Only the two builders write the metrics tables: anything else that stores
    into hmtx / vmtx changes bearings or advances behind the back of the header
    computation and of the 'bearing = own box' rule."""
    ix = prog.ix
    owners = {"BaseOutlineCompiler.setupTable_hmtx": "hmtx", "BaseOutlineCompiler.setupTable_vmtx": "vmtx"}
    n = 0
    seen_owner = set()
    for fi in ix.functions.values():
        aliases: Dict[str, str] = {}
        for st in A.stmts_of(fi.node):
            if isinstance(st, ast.Assign):
                tag = _is_metrics_table_expr(st.value)
                if tag:
                    for t in st.targets:
                        if isinstance(t, ast.Name):
                            aliases[t.id] = tag

        def table_of(e):
            while isinstance(e, ast.Attribute) and e.attr == "metrics":
                e = e.value
            if isinstance(e, ast.Name) and e.id in aliases:
                return aliases[e.id]
            return _is_metrics_table_expr(e)
        for node in A.body_nodes(fi.node):
            tgt = None
            if isinstance(node, (ast.Assign, ast.Delete)):
                for t in node.targets:
                    if isinstance(t, ast.Subscript) and table_of(t.value):
                        tgt = table_of(t.value)
                    elif isinstance(t, ast.Attribute) and t.attr == "metrics" and table_of(t.value):
                        tgt = table_of(t.value)
            elif isinstance(node, ast.Call) and isinstance(node.func, ast.Attribute) and node.func.attr in ("update", "pop", "clear", "setdefault", "__setitem__") and table_of(node.func.value):
                tgt = table_of(node.func.value)
            if tgt is None:
                continue
            n += 1
            ok = owners.get(fi.short) == tgt
            if ok:
                seen_owner.add(fi.short)
            chk.ob("R04.7", f"{fi.short}|{A.keytext(fi.node, node)[:60]}", ok, where(fi, node), detail=f"{tgt} written by its builder",
                   message=f"{fi.short} writes the {tgt} table (`{T(node, 60)}`): only setupTable_{tgt} may, or side bearings / advances stop matching the glyph data and the header")
    need(seen_owner == set(owners), f"metrics table builders not recognised: {sorted(seen_owner)}")
    chk.minimum("R04.7", 4)


# ----------------------------------------------------------------------------- R04.8
def r048(prog, chk):
    """A glyph's record is computed from that glyph alone: no variable that feeds a
    per-glyph store is carried over from a previous iteration (assigned only on some
    paths inside the loop, with an older value surviving on the others)."""
    ix = prog.ix
    n = 0
    for mname in ("setupTable_hmtx", "setupTable_vmtx", "setupTable_VORG", "_setupTable_hhea_or_vhea"):
        f = ix.get_method(BASE_OUTLINE, mname, own=True)
        cfg = prog.cfg(f)
        for lp in [x for x in A.body_nodes(f.node) if isinstance(x, ast.For)]:
            inside = {id(x) for x in ast.walk(lp)}
            sinks = []
            for s_, t, v in subscript_stores(f):
                if id(s_) in inside and v is not None:
                    sinks.append((s_, v))
            for c in A.calls_in(lp):
                if isinstance(c.func, ast.Attribute) and c.func.attr == "append" and c.args:
                    sinks.append((ix.enclosing_stmt(c), c.args[0]))
            for st, val in sinks:
                for nm in [x for x in ast.walk(val) if isinstance(x, ast.Name) and isinstance(x.ctx, ast.Load)]:
                    defs = cfg.reaching_defs(nm.id, st)
                    din = [d for d in defs if d.kind not in ("param",) and id(d.binder) in inside and d.binder is not lp]
                    dloop = [d for d in defs if d.binder is lp]
                    dout = [d for d in defs if d not in din and d not in dloop]
                    if not din or dloop:
                        continue
                    n += 1
                    sn = cfg.node_of(st)
                    head = cfg.node_of(lp)
                    dnodes = [d.node for d in din if d.node is not None and d.node >= 0]
                    # definitely assigned in this iteration: no path from the loop head to the store avoids every in-loop assignment
                    ok = head is not None and sn is not None and not cfg.exists_path(head, [sn], avoid=dnodes)
                    # an in-loop definition exists but none is certain to run before the store in this iteration
                    chk.ob("R04.8", f"{f.short}|{A.keytext(f.node, st)[:50]}|{A.keytext(f.node, nm)} is this glyph's own value", ok, where(f, st), detail="assigned on every path of the iteration",
                           message=f"{f.short}: `{nm.id}` feeds a per-glyph record but is only assigned on some paths inside the loop: on the others the value of a previous glyph "
                                   f"(or the one set before the loop) is used")
    chk.minimum("R04.8", 6)



# ----------------------------------------------------------------------------- R04.9
def r049(prog, chk):
    """A glyph is recorded without a box only when the compiled glyph has no outline at all (the recalculated box is the
    all-zero EMPTY_BOUNDING_BOX, or the charstring has no bounds): any other glyph keeps its box, so that side bearings,
    header extremes and the font box are computed from every glyph that has points."""
    ix = prog.ix
    mod = ix.get_module("ufo2ft.outlineCompiler")
    e = mod.constants.get("EMPTY_BOUNDING_BOX")
    ok0 = e is not None and isinstance(e, ast.Call) and A.callee_name(e) == "BoundingBox" and [A.is_const(a, 0) for a in e.args] == [True] * 4
    chk.ob("R04.9", "EMPTY_BOUNDING_BOX = BoundingBox(0, 0, 0, 0)", ok0, mod.relpath, detail=T(e) if e is not None else "", message="EMPTY_BOUNDING_BOX is no longer the all-zero box")
    n = 0
    for cq in (OTF_OUTLINE, TTF_OUTLINE):
        m = ix.get_method(cq, "makeGlyphsBoundingBoxes", own=True)
        rets = A.returns_of(m.node)
        need(len(rets) == 1 and isinstance(rets[0].value, ast.Name), f"cannot interpret {m.short}: returned table")
        table = rets[0].value.id
        for st, t, v in subscript_stores(m):
            if T(t.value) != table:
                continue
            need(isinstance(v, ast.Name), f"cannot interpret {m.short}: `{T(st, 50)}`")
            for d in prog.reaching(m, v.id, v):
                if d.value is not None and A.is_const(d.value, None):
                    n += 1
                    fs = facts(prog, m, d.binder)
                    ok = any(o == "eq" and {l, r} == {v.id, "EMPTY_BOUNDING_BOX"} for o, l, r in fs) and len([x for x in fs if x[1] == v.id or x[2] == v.id]) == 1
                    chk.ob("R04.9", f"{m.short}|a box is dropped only when it is the all-zero box of an empty glyph", ok, where(m, d.binder), detail=f"{v.id} = None under {v.id} == EMPTY_BOUNDING_BOX",
                           message=f"{m.short}: a glyph loses its bounding box under another test than `{v.id} == EMPTY_BOUNDING_BOX`: a glyph that has points (e.g. a single point, or coincident "
                                   f"points) is then treated as empty - its side bearing is written as 0 and it is left out of the header extremes and the font box")
    need(n >= 2, "no None-box decision found in makeGlyphsBoundingBoxes")
    chk.minimum("R04.9", 3)



# ----------------------------------------------------------------------------- R04.10
METRIC_ATTRS = ("width", "height", "verticalOrigin", "xMin", "yMin", "xMax", "yMax")


def _metric_valued(prog, fi, e, depth=0) -> bool:
    """e may hold an advance, a vertical origin or a box edge - numbers for which 0 is a legitimate value."""
    if depth > 5:
        return False
    if isinstance(e, ast.Attribute) and e.attr in METRIC_ATTRS:
        return True
    if isinstance(e, ast.Call) and A.callee_name(e) == "getattr" and len(e.args) >= 2 and isinstance(e.args[1], ast.Constant) and e.args[1].value in METRIC_ATTRS:
        return True
    if isinstance(e, ast.Call) and A.callee_name(e) in ("otRound", "round", "int", "_getVerticalOrigin") and (e.args or A.callee_name(e) == "_getVerticalOrigin"):
        return A.callee_name(e) == "_getVerticalOrigin" or _metric_valued(prog, fi, e.args[0], depth + 1)
    if isinstance(e, ast.IfExp):
        return _metric_valued(prog, fi, e.body, depth + 1) or _metric_valued(prog, fi, e.orelse, depth + 1)
    if isinstance(e, ast.Name):
        for d in prog.reaching(fi, e.id, e):
            v, how = d.element()
            if v is None or d.kind == "param":
                continue
            if how is None and _metric_valued(prog, fi, v, depth + 1):
                return True
    return False


def r0410(prog, chk):
    """0 is a legitimate advance, vertical origin and box edge: the metrics builders never drop or default such a value by a
    truthiness test (`if width`, `height or default`, filter(None, ...))."""
    from .rounding import check_no_truthiness_on_coordinates
    n = check_no_truthiness_on_coordinates(prog, chk, "R04.10", ["ufo2ft.outlineCompiler"], valued=_metric_valued, what="an advance / origin / box value",
                                           only_functions=lambda fi: fi.name.startswith(("setupTable_", "_setupTable_", "make", "_getVerticalOrigin", "getCharStringForGlyph")))
    need(n >= 20, "truthiness scan of the metrics builders found too few tests")
    chk.minimum("R04.10", 1)


# ----------------------------------------------------------------------------- R04.11
class _C:
    def __init__(self, test, polarity):
        self.test, self.polarity = test, polarity


def _split_chain(e):
    """a < b < c  ->  a < b and b < c (copies; the originals are left alone)."""
    class Tr(ast.NodeTransformer):
        def visit_Compare(self, n):
            self.generic_visit(n)
            if len(n.ops) == 1:
                return n
            parts, left = [], n.left
            for op, right in zip(n.ops, n.comparators):
                parts.append(ast.Compare(left=left, ops=[op], comparators=[right]))
                left = right
            return ast.BoolOp(op=ast.And(), values=parts)
    import copy
    return ast.fix_missing_locations(Tr().visit(copy.deepcopy(e)))


def r0411(prog, chk):
    """fontTools.misc.roundTools.roundFunc: the charstring pen rounds every coordinate when tolerance >= 0.5, none when it is 0,
    and otherwise those within the tolerance of their rounding.  A box value may be otRound-ed exactly where the pen did the same;
    everywhere else the box has to be widened (floor for minima, ceil for maxima) or it no longer encloses the outline, and the
    bearings derived from it are off by one."""
    ix = prog.ix
    m = ix.get_method(OTF_OUTLINE, "makeGlyphsBoundingBoxes", own=True)
    helpers = [f for f in ix.functions.values() if f.parent is m and not isinstance(f.node, ast.Lambda)]
    need(len(helpers) == 1 and len(helpers[0].params()) == 2, f"cannot interpret {m.short}: integer conversion helper")
    h = helpers[0]
    pv, pcb = h.params()
    hlocals = {n.id for n in ast.walk(h.node) if isinstance(n, ast.Name) and isinstance(n.ctx, ast.Store)} | {pv, pcb}

    def is_tol(e):
        if T(e) == "self.roundTolerance":
            return True
        if isinstance(e, ast.Name) and e.id not in hlocals:  # closure variable of the enclosing method
            ds = [s for s in A.stmts_of(m.node) if isinstance(s, ast.Assign) and any(e.id in A.target_names(t) for t in s.targets)]
            return bool(ds) and all(T(s.value) == "self.roundTolerance" for s in ds)
        if isinstance(e, ast.Name) and e.id not in (pv, pcb):
            ds = [s_ for s_ in A.stmts_of(h.node) if isinstance(s_, ast.Assign) and any(e.id in A.target_names(t) for t in s_.targets)]
            return bool(ds) and all(len(s_.targets) == 1 and isinstance(s_.targets[0], ast.Name) and is_tol(s_.value) for s_ in ds)
        return False

    def is_rounded(e):
        if isinstance(e, ast.Call) and is_otround(prog, h, e) and len(e.args) == 1 and T(e.args[0]) == pv:
            return True
        if isinstance(e, ast.Name) and e.id in hlocals and e.id not in (pv, pcb):
            # every binding of the local (the tests are analysed on copies, so no flow-sensitive lookup here)
            ds = [s_ for s_ in A.stmts_of(h.node) if isinstance(s_, ast.Assign) and any(e.id in A.target_names(t) for t in s_.targets)]
            return bool(ds) and all(len(s_.targets) == 1 and isinstance(s_.targets[0], ast.Name) and is_rounded(s_.value) for s_ in ds)
        return False

    def is_dist(e):
        if not (isinstance(e, ast.Call) and A.callee_name(e) == "abs" and len(e.args) == 1 and isinstance(e.args[0], ast.BinOp) and isinstance(e.args[0].op, ast.Sub)):
            return False
        a, b = e.args[0].left, e.args[0].right
        return (is_rounded(a) and T(b) == pv) or (is_rounded(b) and T(a) == pv)

    FLIP = {ast.Lt: ast.Gt, ast.Gt: ast.Lt, ast.LtE: ast.GtE, ast.GtE: ast.LtE}

    def atomize(e):
        p = A.compare_parts(e)
        if not p:
            return None
        l, op, r = p
        if type(op) not in FLIP:
            return None
        # distance against the tolerance
        if is_dist(r) and is_tol(l):
            l, r, op = r, l, FLIP[type(op)]()
        if is_dist(l) and is_tol(r):
            return {ast.LtE: (("close",), True), ast.Gt: (("close",), False), ast.Lt: (("closer",), True), ast.GtE: (("closer",), False)}[type(op)]
        # tolerance against a number
        if is_tol(r) and isinstance(l, ast.Constant) and isinstance(l.value, (int, float)):
            l, r, op = r, l, FLIP[type(op)]()
        if is_tol(l) and isinstance(r, ast.Constant) and isinstance(r.value, (int, float)) and not isinstance(r.value, bool):
            c = float(r.value)
            return {ast.GtE: (("ge", c), True), ast.Lt: (("ge", c), False), ast.Gt: (("gt", c), True), ast.LtE: (("gt", c), False)}[type(op)]
        return None

    def consistent(env):
        if env[("closer",)] and not env[("close",)]:
            return False
        nums = [(k, v) for k, v in env.items() if k[0] in ("ge", "gt")]
        cs = sorted({k[1] for k, _ in nums})
        pts = set(cs) | {cs[0] - 1, cs[-1] + 1} | {(a + b) / 2 for a, b in zip(cs, cs[1:])}
        return any(all(((t >= k[1]) if k[0] == "ge" else (t > k[1])) == v for k, v in nums) for t in pts)

    goal = lambda env: env[("ge", 0.5)] or env[("close",)]
    n = 0
    for ret in A.returns_of(h.node):
        v = ret.value
        cl = [_C(_split_chain(c.test), c.polarity) for c in conds(prog, h, ret) if c.polarity in (True, False)]
        if v is not None and is_rounded(v):
            n += 1
            ok = entails(cl, atomize, goal, constraints=consistent, goal_atoms=(("ge", 0.5), ("close",), ("closer",)))
            chk.ob("R04.11", f"{m.short}|a box value is rounded to nearest only where the charstring pen rounds the coordinate too", ok, where(h, ret),
                   detail="return otRound(value) under `tolerance >= 0.5 or abs(otRound(value) - value) <= tolerance`",
                   message=f"{m.short}: a box value can be rounded to nearest although the pen kept the coordinate as a float (tolerance below 0.5 and the value further from its rounding "
                           f"than the tolerance, e.g. roundTolerance=0): the box no longer encloses the outline and the side bearings derived from it are wrong")
        else:
            ok = isinstance(v, ast.Call) and A.callee_name(v) == "int" and len(v.args) == 1 and isinstance(v.args[0], ast.Call) and T(v.args[0].func) == pcb and [T(a) for a in v.args[0].args] == [pv]
            chk.ob("R04.11", f"{m.short}|otherwise the value goes through the widening callback", ok, where(h, ret), detail=T(v) if v is not None else "None",
                   message=f"{m.short}: an unrounded coordinate is not widened with the floor / ceil callback (`{T(v, 50) if v is not None else None}`)")
            ok = entails(cl, atomize, lambda env: not goal(env), constraints=consistent, goal_atoms=(("ge", 0.5), ("close",), ("closer",)))
            chk.ob("R04.11", f"{m.short}|a box value is only widened where the pen kept the coordinate unrounded", ok, where(h, ret),
                   detail="floor / ceil under `tolerance < 0.5 and abs(otRound(value) - value) > tolerance`",
                   message=f"{m.short}: a box value can be floored / ceiled although the pen rounded that coordinate to nearest: the box is then larger than the outline "
                           f"and the side bearings derived from it are off by one")
    need(n >= 1, f"cannot interpret {h.short}: no rounded return")
    # minima floored, maxima ceiled
    calls = [c for c in A.body_nodes(m.node) if isinstance(c, ast.Call) and isinstance(c.func, ast.Name) and c.func.id == h.name and ix.enclosing_function(c) is m]
    seen = {}
    for c in calls:
        loops = [a for a in ix.ancestors(c) if isinstance(a, ast.For)]
        need(len(c.args) == 2 and loops and isinstance(loops[0].iter, ast.Subscript) and isinstance(loops[0].iter.slice, ast.Slice) and T(c.args[0]) in A.target_names(loops[0].target),
             f"cannot interpret {m.short}: `{T(c, 50)}`")
        sl = loops[0].iter.slice
        half = "min" if (sl.lower is None and A.is_const(sl.upper, 2)) else "max" if (A.is_const(sl.lower, 2) and sl.upper is None) else "?"
        seen[half] = T(c.args[1])
    ok = seen == {"min": "math.floor", "max": "math.ceil"}
    chk.ob("R04.11", f"{m.short}|minima (bounds[:2]) are floored and maxima (bounds[2:]) are ceiled", ok, where(m), detail=str(seen),
           message=f"{m.short}: the widening direction is wrong ({seen}): unrounded minima must be floored and maxima ceiled for the box to enclose the outline")
    # the pen rounds with the same tolerance
    g = ix.get_method(OTF_OUTLINE, "getCharStringForGlyph", own=True)
    pens = [c for c in A.body_nodes(g.node) if isinstance(c, ast.Call) and A.callee_name(c) == "T2CharStringPen"]
    need(len(pens) == 1, f"cannot interpret {g.short}: charstring pen")
    kv = A.kwarg(pens[0], "roundTolerance")
    ok = kv is not None and T(kv) == "self.roundTolerance"
    chk.ob("R04.11", f"{g.short}|the charstring pen rounds with the same tolerance", ok, where(g, pens[0]), detail=T(pens[0], 90),
           message=f"{g.short}: the charstring pen is not given self.roundTolerance (`{T(kv) if kv is not None else 'default'}`): outline and boxes are rounded by different rules")
    chk.minimum("R04.11", 5)


# ----------------------------------------------------------------------------- R04.12
def r0412(prog, chk):
    ix = prog.ix
    f = ix.get_method(BASE_OUTLINE, "setupTable_OS2", own=True)
    rc = [c for c in calls_named(f, "recalcAvgCharWidth")]
    ok = len(rc) == 1 and len(rc[0].args) == 1 and T(rc[0].args[0]) == "self.otf" \
        and not [g for g in may_conds(prog, f, rc[0]) if g.kind in ("if", "boolop", "ifexp", "while", "for") and not is_early_exit_guard(prog, f, g)]
    if ok:
        # on the table object that is installed as OS/2
        tv = rc[0].func.value
        okt, _ = every_origin(prog, f, tv, lambda x, ff: isinstance(x, ast.Call) and A.callee_name(x) == "newTable" and x.args and A.is_const(x.args[0], "OS/2"), allow_const=False)
        ok = okt
    chk.ob("R04.12", f"{f.short}|xAvgCharWidth recalculated by fontTools from the font being built", ok, where(f, rc[0]) if rc else where(f), detail=T(rc[0], 60) if rc else "no recalcAvgCharWidth call",
           message=f"{f.short}: OS/2.xAvgCharWidth is no longer recalculated from the compiled hmtx (the average of the stored, rounded, non-zero advances): the field can disagree with the advances in the same font")
    stores = [(fi, s_) for fi in ix.functions.values() if not isinstance(fi.node, ast.Lambda) for s_, t, v in attr_stores(fi, "xAvgCharWidth")]
    chk.ob("R04.12", "nothing stores xAvgCharWidth by hand", not stores, where(stores[0][0], stores[0][1]) if stores else "", detail=f"{len(stores)} store(s)",
           message=f"{stores[0][0].short if stores else ''}: xAvgCharWidth is written directly (`{T(stores[0][1], 60) if stores else ''}`) instead of being derived from the compiled advances")
    c = ix.get_method(BASE_OUTLINE, "compile", own=True)
    cfg = prog.cfg(c)
    a, b = calls_named(c, "setupTable_hmtx"), calls_named(c, "setupTable_OS2")
    ok = len(a) == 1 and len(b) == 1 and cfg.dominates(cfg.node_of(a[0]), cfg.node_of(b[0]))
    chk.ob("R04.12", f"{c.short}|hmtx is built before OS/2", ok, where(c), detail="recalcAvgCharWidth reads the hmtx table of the font being built",
           message=f"{c.short}: OS/2 can be built before hmtx: the average width is computed from a missing table (0)")
    chk.minimum("R04.12", 3)


# ----------------------------------------------------------------------------- R04.14
# fontTools table methods that (re)compute fields of the table they are called on
FT_TABLE_METHODS = {
    "recalcAvgCharWidth": {"xAvgCharWidth"},
    "recalcUnicodeRanges": {"ulUnicodeRange1", "ulUnicodeRange2", "ulUnicodeRange3", "ulUnicodeRange4"},
    "setUnicodeRanges": {"ulUnicodeRange1", "ulUnicodeRange2", "ulUnicodeRange3", "ulUnicodeRange4"},
    "recalcCodePageRanges": {"ulCodePageRange1", "ulCodePageRange2"},
    "setCodePageRanges": {"ulCodePageRange1", "ulCodePageRange2"},
    "updateFirstAndLastCharIndex": {"usFirstCharIndex", "usLastCharIndex"},
}
# what the info-override compiler has none of: it is built with an empty glyph set / glyph order and never builds cmap
GLYPH_DATA_FIELDS = {"otf", "unicodeToGlyphNameMapping", "glyphSet", "allGlyphs", "glyphOrder", "glyphBoundingBoxes", "fontBoundingBox"}


def _glyph_data_deps(prog, fi, e, seen=None, depth=0) -> Set[str]:
    seen = set() if seen is None else seen
    out: Set[str] = set()
    if depth > 6:
        return out
    for n in ast.walk(e):
        if isinstance(n, ast.Attribute) and isinstance(n.value, ast.Name) and n.value.id == "self" and n.attr in GLYPH_DATA_FIELDS:
            out.add(n.attr)
        elif isinstance(n, ast.Name) and isinstance(n.ctx, ast.Load) and n.id != "self":
            for d in prog.reaching(fi, n.id, n):
                k = (n.id, id(d.binder))
                if k in seen or d.value is None:
                    continue
                seen.add(k)
                out |= _glyph_data_deps(prog, fi, d.value, seen, depth + 1)
    return out


def r0414(prog, chk):
    """The info-override pass (InfoCompiler) runs the base table builders on a font with no glyphs and no cmap and copies every
    listed field that is set onto the finished font; a listed field computed from glyph data must therefore stay unset there."""
    ix = prog.ix
    ic = ix.get_class("ufo2ft.infoCompiler.InfoCompiler")
    n = 0
    for name, m in sorted(ic.methods.items()):
        if not name.startswith("setupTable_"):
            continue
        copied: Set[str] = set()
        for c in calls_named(m, "_set_attrs"):
            need(len(c.args) == 2 and isinstance(c.args[1], (ast.Set, ast.List, ast.Tuple)) and all(isinstance(x, ast.Constant) for x in c.args[1].elts),
                 f"cannot interpret {m.short}: the copied field list")
            copied |= {x.value for x in c.args[1].elts}
        if not copied or not [c for c in calls_named(m, name) if isinstance(c.func, ast.Attribute) and T(c.func.value) == "super()"]:
            continue
        base = ix.get_method(BASE_OUTLINE, name, own=True)
        funcs = [base]
        for c in ast.walk(base.node):
            if isinstance(c, ast.Call) and isinstance(c.func, ast.Attribute) and (isinstance(c.func.value, ast.Name) and c.func.value.id == 'self'):
                try:
                    g = ix.get_method(BASE_OUTLINE, c.func.attr)
                except AnalysisError:
                    continue
                if g not in funcs and not g.name.startswith("setupTable_"):
                    funcs.append(g)
        for f in funcs:
            sites = []  # (node, fields, value exprs)
            for st in A.stmts_of(f.node):
                tg = st.targets if isinstance(st, ast.Assign) else [st.target] if isinstance(st, (ast.AugAssign, ast.AnnAssign)) else []
                for t in tg:
                    if isinstance(t, ast.Attribute) and t.attr in copied and not (isinstance(t.value, ast.Name) and t.value.id == 'self') and getattr(st, "value", None) is not None:
                        sites.append((st, {t.attr}, [st.value]))
                if isinstance(st, ast.Expr) and isinstance(st.value, ast.Call) and isinstance(st.value.func, ast.Attribute):
                    flds = FT_TABLE_METHODS.get(st.value.func.attr)
                    if flds and flds & copied:
                        sites.append((st, flds & copied, list(st.value.args) + [k.value for k in st.value.keywords]))
                    elif st.value.func.attr == "setattr":
                        pass
                if isinstance(st, ast.Expr) and isinstance(st.value, ast.Call) and A.callee_name(st.value) == "setattr" and len(st.value.args) == 3:
                    sites.append((st, {"<computed name>"}, [st.value.args[2]]))
            for st, flds, vals in sites:
                deps: Set[str] = set()
                for v in vals:
                    deps |= _glyph_data_deps(prog, f, v)
                if not deps:
                    continue
                fs = facts(prog, f, st)
                guarded = any(o == "in" and r == "self.otf" and l in ("'cmap'", '"cmap"') for o, l, r in fs) or \
                    any(o in ("truthy", "isnot") and l.startswith("self.") and l.split(".")[1] in GLYPH_DATA_FIELDS - {"otf"} for o, l, r in fs)
                n += 1
                chk.ob("R04.14", f"{f.short}|{'/'.join(sorted(flds))} from glyph data only when there is glyph data", guarded, where(f, st), detail=f"{T(st, 70)} reads self.{', self.'.join(sorted(deps))}",
                       message=f"{f.short}: `{T(st, 80)}` computes {', '.join(sorted(flds))} from glyph data (self.{', self.'.join(sorted(deps))}) also when the font being built has no cmap: the info-override pass "
                               f"({m.short}) builds this table for an empty glyph set and copies every field that is set onto the finished font, so the real font's value is overwritten with the empty one")
    chk.minimum("R04.14", 2)


MUTANTS = [
    M("vertical origin read with getattr and tested for truth: an explicit origin of 0 falls back to the ascender (seeded C04o)", "ufo2ft/outlineCompiler.py", "_getVerticalOrigin",
      "hasattr(glyph, 'verticalOrigin') and glyph.verticalOrigin is not None", "getattr(glyph, 'verticalOrigin', None)", rule="R04.10"),
    M("vertical origin read with getattr, tested against None", "ufo2ft/outlineCompiler.py", "_getVerticalOrigin",
      "hasattr(glyph, 'verticalOrigin') and glyph.verticalOrigin is not None", "getattr(glyph, 'verticalOrigin', None) is not None", kind="equiv"),
    M("unicode ranges always computed from the character mapping, zeroed by the info-override pass (seeded C04n)", "ufo2ft/outlineCompiler.py", "BaseOutlineCompiler.setupTable_OS2",
      "if uniRanges is not None:\n    os2.ulUnicodeRange1 = intListToNum(uniRanges, 0, 32)\n    os2.ulUnicodeRange2 = intListToNum(uniRanges, 32, 32)\n    os2.ulUnicodeRange3 = intListToNum(uniRanges, 64, 32)\n    os2.ulUnicodeRange4 = intListToNum(uniRanges, 96, 32)\nelif 'cmap' in self.otf:\n    os2.recalcUnicodeRanges(self.otf)",
      "if uniRanges is not None:\n    os2.ulUnicodeRange1 = intListToNum(uniRanges, 0, 32)\n    os2.ulUnicodeRange2 = intListToNum(uniRanges, 32, 32)\n    os2.ulUnicodeRange3 = intListToNum(uniRanges, 64, 32)\n    os2.ulUnicodeRange4 = intListToNum(uniRanges, 96, 32)\nelse:\n    os2.setUnicodeRanges(intersectUnicodeRanges(self.unicodeToGlyphNameMapping.keys()))", rule="R04.14"),
    M("suffixed production names are not recorded as taken (seeded C04m)", "ufo2ft/postProcessor.py", "PostProcessor._unique_name",
      "if name in seen:\n    n = seen[name]\n    while name + '.%d' % n in seen:\n        n += 1\n    seen[name] = n + 1\n    name += '.%d' % n\nseen[name] = 1\nreturn name",
      "if name not in seen:\n    seen[name] = 1\n    return name\nn = seen[name]\nwhile name + '.%d' % n in seen:\n    n += 1\nseen[name] = n + 1\nreturn name + '.%d' % n", rule="R04.13"),
    M("average width computed from the unrounded source advances (seeded C04k)", "ufo2ft/outlineCompiler.py", "BaseOutlineCompiler.setupTable_OS2",
      "os2.recalcAvgCharWidth(self.otf)", "widths = [glyph.width for glyph in self.allGlyphs.values() if glyph.width > 0]\nos2.xAvgCharWidth = otRound(sum(widths) / len(widths)) if widths else 0", rule="R04.12"),
    M("OS/2 built before hmtx", "ufo2ft/outlineCompiler.py", "BaseOutlineCompiler.compile",
      "self.setupTable_hmtx()\nself.setupTable_hhea()", "self.setupTable_OS2()\nself.setupTable_hmtx()\nself.setupTable_hhea()", rule="R04.12"),
    M("boxes rounded to nearest when nothing is rounded (seeded C04i)", "ufo2ft/outlineCompiler.py", "OutlineOTFCompiler.makeGlyphsBoundingBoxes",
      "tolerance = self.roundTolerance", "tolerance = self.roundTolerance\npartialRounding = 0 < tolerance < 0.5", rule="R04.11",
      also=(("ufo2ft/outlineCompiler.py", "OutlineOTFCompiler.makeGlyphsBoundingBoxes.toInt", "tolerance >= 0.5 or abs(rounded - value) <= tolerance", "not partialRounding or abs(rounded - value) <= tolerance"),)),
    M("box rounding threshold lowered", "ufo2ft/outlineCompiler.py", "OutlineOTFCompiler.makeGlyphsBoundingBoxes.toInt",
      "tolerance >= 0.5", "tolerance >= 0.25", rule="R04.11"),
    M("maxima floored", "ufo2ft/outlineCompiler.py", "OutlineOTFCompiler.makeGlyphsBoundingBoxes",
      "rounded.append(toInt(value, math.ceil))", "rounded.append(toInt(value, math.floor))", rule="R04.11"),
    M("box guard written the other way round", "ufo2ft/outlineCompiler.py", "OutlineOTFCompiler.makeGlyphsBoundingBoxes.toInt",
      "tolerance >= 0.5 or abs(rounded - value) <= tolerance", "not (tolerance < 0.5 and tolerance < abs(value - rounded))", kind="equiv"),
    M("box guard stricter than the pen's (box larger than the outline at the boundary)", "ufo2ft/outlineCompiler.py", "OutlineOTFCompiler.makeGlyphsBoundingBoxes.toInt",
      "tolerance >= 0.5 or abs(rounded - value) <= tolerance", "tolerance >= 1 or abs(rounded - value) < tolerance", rule="R04.11"),
    M("an explicit vertical origin of 0 falls back to the ascender", "ufo2ft/outlineCompiler.py", "_getVerticalOrigin",
      "hasattr(glyph, 'verticalOrigin') and glyph.verticalOrigin is not None", "hasattr(glyph, 'verticalOrigin') and glyph.verticalOrigin", rule="R04.10"),
    M("zero-width glyphs get no hmtx advance of their own", "ufo2ft/outlineCompiler.py", "BaseOutlineCompiler.setupTable_hmtx",
      "width = otRound(glyph.width)", "width = otRound(glyph.width or 0) if glyph.width else 0", rule="R04.10"),
    M("zero-extent boxes treated as empty (seeded C04f)", "ufo2ft/outlineCompiler.py", "OutlineTTFCompiler.makeGlyphsBoundingBoxes",
      "bounds == EMPTY_BOUNDING_BOX", "bounds.xMin == bounds.xMax and bounds.yMin == bounds.yMax", rule="R04.9"),
    M("default vertical origin hoisted out of the loop, explicit origins leak into later glyphs (seeded C04c)", "ufo2ft/outlineCompiler.py", "BaseOutlineCompiler.setupTable_vmtx",
      "verticalOrigin = _getVerticalOrigin(self.otf, glyph)", "if getattr(glyph, 'verticalOrigin', None) is not None:\n    verticalOrigin = otRound(glyph.verticalOrigin)", rule="R04.8"),
    M("left bearing only recomputed for glyphs with a box", "ufo2ft/outlineCompiler.py", "BaseOutlineCompiler.setupTable_hmtx",
      "left = bounds.xMin if bounds else 0", "if bounds:\n    left = bounds.xMin", rule="R04.8"),
    M("use-my-metrics composites take the base glyph's hmtx record (seeded C04b)", "ufo2ft/instructionCompiler.py", "InstructionCompiler.autoUseMyMetrics",
      "width = hmtx[glyphName][0]", "width = hmtx[glyphName][0]\nhmtx[glyphName] = (width, 0)", rule="R04.7"),
    M("post-processor zeroes negative bearings", "ufo2ft/postProcessor.py", "PostProcessor.process_glyph_names",
      "self.set_post_table_format(self.otf, 2.0)", "self.set_post_table_format(self.otf, 2.0)\nfor gn, (adv, lsb) in list(self.otf['hmtx'].metrics.items()):\n    self.otf['hmtx'].metrics[gn] = (adv, max(lsb, 0))", rule="R04.7"),
    M("header built before its metrics table", "ufo2ft/outlineCompiler.py", "BaseOutlineCompiler.compile",
      "self.setupTable_hmtx()\nself.setupTable_hhea()", "self.setupTable_hhea()\nself.setupTable_hmtx()", rule="R04.1"),
    M("vhea summarises hmtx", "ufo2ft/outlineCompiler.py", "BaseOutlineCompiler._setupTable_hhea_or_vhea",
      "self.otf.get(tag[0] + 'mtx')", "self.otf.get('hmtx')", rule="R04.1"),
    M("empty glyphs get no hmtx record", "ufo2ft/outlineCompiler.py", "BaseOutlineCompiler.setupTable_hmtx",
      "bounds = self.glyphBoundingBoxes[glyphName]", "bounds = self.glyphBoundingBoxes[glyphName]\nif bounds is None:\n    continue", rule="R04.2"),
    M("left bearing from xMax", "ufo2ft/outlineCompiler.py", "BaseOutlineCompiler.setupTable_hmtx",
      "bounds.xMin if bounds else 0", "bounds.xMax if bounds else 0", rule="R04.2"),
    M("top bearing sign flipped", "ufo2ft/outlineCompiler.py", "BaseOutlineCompiler.setupTable_vmtx",
      "(height, verticalOrigin - top)", "(height, top - verticalOrigin)", rule="R04.2"),
    M("advances of empty glyphs not counted", "ufo2ft/outlineCompiler.py", "BaseOutlineCompiler._setupTable_hhea_or_vhea",
      "advances.append(advance)\nbounds = self.glyphBoundingBoxes[glyphName]\nif bounds is None:\n    continue",
      "bounds = self.glyphBoundingBoxes[glyphName]\nif bounds is None:\n    continue\nadvances.append(advance)", rule="R04.3"),
    M("extent without the bearing", "ufo2ft/outlineCompiler.py", "BaseOutlineCompiler._setupTable_hhea_or_vhea",
      "boundsAdvance = bounds.xMax - bounds.xMin\nextent = firstSideBearing + boundsAdvance", "boundsAdvance = bounds.xMax - bounds.xMin\nextent = boundsAdvance", rule="R04.3"),
    M("vhea uses the horizontal box size", "ufo2ft/outlineCompiler.py", "BaseOutlineCompiler._setupTable_hhea_or_vhea",
      "boundsAdvance = bounds.yMax - bounds.yMin", "boundsAdvance = bounds.xMax - bounds.xMin", rule="R04.3"),
    M("right bearing ignores the left one", "ufo2ft/outlineCompiler.py", "BaseOutlineCompiler._setupTable_hhea_or_vhea",
      "advance - firstSideBearing - boundsAdvance", "advance - boundsAdvance", rule="R04.3"),
    M("minimum right bearing taken from the left list", "ufo2ft/outlineCompiler.py", "BaseOutlineCompiler._setupTable_hhea_or_vhea",
      "min(secondSideBearings) if secondSideBearings else 0", "min(firstSideBearings) if secondSideBearings else 0", rule="R04.3"),
    M("max extent uses min", "ufo2ft/outlineCompiler.py", "BaseOutlineCompiler._setupTable_hhea_or_vhea",
      "max(extents) if extents else 0", "min(extents) if extents else 0", rule="R04.3"),
    M("long-metric count keeps the whole trailing run", "ufo2ft/outlineCompiler.py", "BaseOutlineCompiler._setupTable_hhea_or_vhea",
      "advances[numLongMetrics - 2] == lastAdvance", "advances[numLongMetrics - 1] != lastAdvance", rule="R04.4"),
    M("long-metric count can reach 0", "ufo2ft/outlineCompiler.py", "BaseOutlineCompiler._setupTable_hhea_or_vhea",
      "if numLongMetrics <= 1:\n    numLongMetrics = 1\n    break", "if numLongMetrics < 1:\n    numLongMetrics = 1\n    break", rule="R04.4"),
    M("font box is the last glyph's box", "ufo2ft/outlineCompiler.py", "BaseOutlineCompiler.makeFontBoundingBox",
      "fontBox = unionRect(fontBox, glyphBox)", "fontBox = glyphBox", rule="R04.5"),
    M("head yMin / xMax swapped", "ufo2ft/outlineCompiler.py", "BaseOutlineCompiler.setupTable_head",
      "xMin, yMin, xMax, yMax = self.fontBoundingBox", "xMin, xMax, yMin, yMax = self.fontBoundingBox", rule="R04.5"),
    M("last char index not capped", "ufo2ft/outlineCompiler.py", "BaseOutlineCompiler.setupTable_OS2",
      "if maxIndex > 65535:\n    maxIndex = 65535", "pass", rule="R04.6"),
    M("first char index from max", "ufo2ft/outlineCompiler.py", "BaseOutlineCompiler.setupTable_OS2", "minIndex = min(unicodes)", "minIndex = max(unicodes)", rule="R04.6"),
    M("maxp counts source glyphs", "ufo2ft/outlineCompiler.py", "OutlineOTFCompiler.setupTable_maxp", "len(self.glyphOrder)", "len(self.ufo)", rule="R04.6"),
    M("VORG default is the first glyph's origin", "ufo2ft/outlineCompiler.py", "BaseOutlineCompiler.setupTable_VORG",
      "vorg_count.most_common(1)[0][0]", "next(iter(vorg_count))", rule="R04.6"),
]
