"""C12 - CFF optimisation / subroutiniser / version only affect encoding (structural clauses)."""

from __future__ import annotations

import ast

from ..core import astutil as A
from ..core.index import AnalysisError
from ..selftest import M
from .common import (OTF_OUTLINE, T, calls_named, every_origin, check_forwarding, check_plumbing, conds, facts, has_fact, key,
                     need, subscript_stores, where)

PP = "ufo2ft.postProcessor.PostProcessor"
IOTF = "ufo2ft._compilers.interpolatableOTFCompiler.InterpolatableOTFCompiler"
OTFC = "ufo2ft._compilers.otfCompiler.OTFCompiler"
VCFF2 = "ufo2ft._compilers.variableCFF2sCompiler.VariableCFF2sCompiler"


def run(prog, chk):
    chk.decided += [
        "subroutiniser dispatch is exhaustive over the backend enum; version-default table covers every CFF version (R12.1)",
        "the subroutiniser that runs is the one the caller asked for, the version default only when none was requested: unsupported combinations reach their NotImplementedError (R12.7)",
        "the encoding options are read by the compilers, the outline compiler and the post-processor only: no pre-processor / filter / feature code sees them, not even as a parameter name (R12.8)",
        "default / nominal width are made integers by their one producer and used unchanged by the charstring compiler and the Private DICT writer (R12.9)",
        "unsupported combinations reach NotImplementedError: compreffor with non-CFF1, CFF2->CFF without subroutinising, unknown post format (R12.2)",
        "specialise iff >= SPECIALIZE, subroutinise iff >= SUBROUTINIZE, consistent with the IntEnum order; interpolatable masters force NONE (R12.3)",
        "options optimizeCFF/cffVersion/subroutinizer/roundTolerance reach their consumer by name (R12.4)",
        "in the CFF outline compiler nothing that draws or builds is conditional on optimizeCFF / cffVersion / subroutinizer; optimizeCFF is only consumed as getCharString(optimize=...) (R12.5)",
    ]
    chk.decided += ["every glyph has its own charstring object, compiled from its own outline: a subroutiniser that rewrites programs in place (compreffor) never meets one object under two names (R12.10 = R01.12)"]
    chk.not_decided += ["equality of the drawing operations across combinations (fontTools specialiser, cffsubr, compreffor)"]
    ix = prog.ix
    pp = ix.get_class(PP)

    # ---- R12.1 exhaustiveness
    be = ix.classes.get(PP + ".SubroutinizerBackend")
    need(be is not None, "PostProcessor.SubroutinizerBackend vanished")
    values = {}
    for name, expr in be.attrs.items():
        try:
            values[name] = ix.const_eval(be.module, expr, be)
        except ValueError:
            raise AnalysisError(f"cannot fold SubroutinizerBackend.{name}")
    need(values, "SubroutinizerBackend has no members")
    disp = ix.get_method(PP, "_subroutinize", own=True)
    prefix = None
    for c in calls_named(disp, "getattr"):
        if len(c.args) >= 2 and isinstance(c.args[1], ast.JoinedStr):
            js = c.args[1]
            if js.values and isinstance(js.values[0], ast.Constant) and len(js.values) == 2 \
                    and isinstance(js.values[1], ast.FormattedValue) and T(js.values[1].value).endswith(".value"):
                prefix = js.values[0].value
                has_default = len(c.args) > 2
                chk.ob("R12.1", key(disp, "dispatch-has-no-silent-default"), not has_default, where(disp, c),
                       detail="getattr without default: an unknown backend cannot be skipped silently",
                       message="subroutiniser dispatch falls back silently when no method exists for the backend")
    need(prefix is not None, f"cannot interpret {disp.short}: dispatch by getattr(cls, f'<prefix>{{backend.value}}') not found")
    for name, v in sorted(values.items()):
        m = pp.methods.get(f"{prefix}{v}")
        chk.ob("R12.1", f"backend {name}={v!r}", m is not None, where(disp),
               detail=f"method {prefix}{v} exists", message=f"no method {prefix}{v} for SubroutinizerBackend.{name}: selecting it raises AttributeError")
    ver = ix.classes.get("ufo2ft.postProcessor.CFFVersion")
    need(ver is not None, "CFFVersion vanished")
    vvals = {n: ix.const_eval(ver.module, e, ver) for n, e in ver.attrs.items()}
    table = pp.attrs.get("DEFAULT_SUBROUTINIZER_FOR_CFF_VERSION")
    need(isinstance(table, ast.Dict), "DEFAULT_SUBROUTINIZER_FOR_CFF_VERSION is not a dict literal")
    keys = set()
    for k, v in zip(table.keys, table.values):
        kv = ix.const_eval(pp.module, k, pp)
        keys.add(int(kv))
        okv = isinstance(v, ast.Attribute) and v.attr in values
        chk.ob("R12.1", f"default backend for CFF version {kv}", okv, pp.module.relpath,
               detail=f"{T(v)} is a SubroutinizerBackend member", message=f"default subroutiniser for CFF version {kv} is not a backend member")
    for n, v in sorted(vvals.items()):
        chk.ob("R12.1", f"version {n}={v} has a default backend", int(v) in keys, pp.module.relpath,
               detail="key present in DEFAULT_SUBROUTINIZER_FOR_CFF_VERSION",
               message=f"CFFVersion.{n} has no default subroutiniser: KeyError when optimizeCFF is on")
    chk.minimum("R12.1", 7)

    # ---- R12.2 unsupported combinations raise
    comp = ix.get_method(PP, "_subroutinize_with_compreffor", own=True)
    params = comp.params()
    ver_param = params[-1]
    compress = [c for c in A.body_nodes(comp.node) if isinstance(c, ast.Call) and prog.is_call_to(comp, c, "compreffor.compress")]
    need(compress, f"cannot interpret {comp.short}: compreffor.compress call not found")
    for c in compress:
        fs = facts(prog, comp, c)
        ok_in = has_fact(fs, "eq", "_get_cff_version", "CFFVersion.CFF")
        ok_out = any(o == "eq" and {l, r} == {ver_param, "CFFVersion.CFF"} for o, l, r in fs)
        chk.ob("R12.2", key(comp, c), ok_in and ok_out, where(comp, c),
               detail=f"compress() only when input is CFF1 ({ok_in}) and output is CFF1 ({ok_out})",
               message="compreffor can be run on / asked for a non-CFF1 table without raising NotImplementedError")
    rs = [r for r in A.raises_of(comp.node) if A.raise_class(r) == "NotImplementedError"]
    chk.ob("R12.2", key(comp, "raises NotImplementedError"), bool(rs), where(comp),
           detail=f"{len(rs)} raise(s)", message="compreffor guard no longer raises NotImplementedError")

    pc = ix.get_method(PP, "process_cff", own=True)
    conv = [c for c in A.body_nodes(pc.node) if isinstance(c, ast.Call) and A.callee_name(c) == "convertCFFToCFF2"]
    need(conv, f"cannot interpret {pc.short}: convertCFFToCFF2 call not found")
    # names holding input / output version
    in_names = [d.name for n in A.body_nodes(pc.node) if isinstance(n, ast.Assign) and isinstance(n.value, ast.Call)
                and A.callee_name(n.value) == "_get_cff_version" for d in [type("d", (), {"name": A.target_names(n.targets[0])[0]})]]
    need(in_names, f"cannot interpret {pc.short}: input version variable not found")
    vin = in_names[0]
    for c in conv:
        fs = facts(prog, pc, c)
        ok = any(o == "eq" and vin in (l, r) and "CFFVersion.CFF" in (l, r) for o, l, r in fs) \
            and any(o == "eq" and "CFFVersion.CFF2" in (l, r) and vin not in (l, r) for o, l, r in fs)
        chk.ob("R12.2", key(pc, c), ok, where(pc, c), detail="CFF->CFF2 conversion only for input CFF1 and output CFF2",
               message="convertCFFToCFF2 can run for a combination other than CFF1 -> CFF2")
    rs = [r for r in A.raises_of(pc.node) if A.raise_class(r) == "NotImplementedError"]
    good = []
    for r in rs:
        fs = facts(prog, pc, r)
        if any(o == "ne" and vin in (l, r2) for o, l, r2 in fs):
            good.append(r)
    chk.ob("R12.2", key(pc, "unsupported conversion raises"), bool(good), where(pc),
           detail="NotImplementedError is raised when versions differ and the pair is not CFF1->CFF2",
           message="an unsupported CFF version conversion (e.g. CFF2 -> CFF without subroutinising) is silently ignored")
    # under 'versions differ and not optimising' nothing but convert / raise may complete
    cfg = prog.cfg(pc)
    diff_tests = [n for n in cfg.nodes if n.kind == "test" and any(o == "ne" and vin in (l, r) for o, l, r in
                                                                  __import__("vt.rules.common", fromlist=["atoms_of"]).atoms_of(n.ast, True))]
    for tn in diff_tests:
        succ_true = [d for lab, d, w in tn.succ if lab is True]
        avoid = [cfg.node_of(x) for x in conv + rs]
        leak = any(cfg.exists_path(s, [cfg.exit], avoid=avoid) or s == cfg.exit for s in succ_true if s not in avoid)
        chk.ob("R12.2", key(pc, "differing versions always convert or raise"), not leak, where(pc, tn.ast),
               detail="every path under 'input != output' ends in conversion or NotImplementedError",
               message="with differing CFF versions a path completes without converting or raising")
    sp = ix.get_method(PP, "set_post_table_format", own=True)
    rs = [r for r in A.raises_of(sp.node) if A.raise_class(r) == "NotImplementedError"]
    ok = False
    for r in rs:
        fs = facts(prog, sp, r)
        ok = ok or any(o == "notin" for o, l, r2 in fs)
    chk.ob("R12.2", key(sp, "unknown post format raises"), ok, where(sp),
           detail="NotImplementedError under 'formatType not in (...)'", message="unknown post table format no longer raises NotImplementedError")
    chk.minimum("R12.2", 6)

    # ---- R12.3 thresholds
    enum = ix.get_class("ufo2ft.constants.CFFOptimization")
    ev = {n: ix.const_eval(enum.module, e, enum) for n, e in enum.attrs.items()}
    ok = ev.get("NONE", 9) < ev.get("SPECIALIZE", -1) < ev.get("SUBROUTINIZE", -1) and any(b.endswith("IntEnum") for b in enum.bases)
    chk.ob("R12.3", "CFFOptimization order", ok, enum.module.relpath, detail=str(ev),
           message="CFFOptimization is no longer an IntEnum ordered NONE < SPECIALIZE < SUBROUTINIZE")

    def threshold(fi, member, what):
        hits = []
        for n in A.body_nodes(fi.node):
            p = A.compare_parts(n) if isinstance(n, ast.Compare) else None
            if p and isinstance(p[2], ast.Attribute) and T(p[2]).endswith("CFFOptimization." + member):
                hits.append((n, p))
        ok = bool(hits) and all(isinstance(p[1], ast.GtE) and "optimizeCFF" in T(p[0]) for _n, p in hits)
        others = [n for n in A.body_nodes(fi.node) if isinstance(n, ast.Compare) and "CFFOptimization." in T(n) and n not in [h[0] for h in hits]]
        chk.ob("R12.3", key(fi, f"{what} iff optimizeCFF >= {member}"), ok and not others, where(fi),
               detail=f"{[T(h[0]) for h in hits]}",
               message=f"{fi.short}: {what} is no longer decided by optimizeCFF >= CFFOptimization.{member}")
        return hits

    oinit = ix.get_method(OTF_OUTLINE, "__init__", own=True)
    threshold(oinit, "SPECIALIZE", "specialise")
    proc = ix.get_method(PP, "process", own=True)
    threshold(proc, "SUBROUTINIZE", "subroutinise")
    merge = ix.get_method(IOTF, "_merge", own=True)
    threshold(merge, "SPECIALIZE", "varLib optimise")
    # the decision reaches the consumers
    gcs = ix.get_method(OTF_OUTLINE, "getCharStringForGlyph", own=True)
    c = [c for c in calls_named(gcs, "getCharString")]
    ok = bool(c) and all(A.kwarg(x, "optimize") is not None and T(A.kwarg(x, "optimize")) == "self.optimizeCFF" for x in c)
    chk.ob("R12.3", key(gcs, "optimize=self.optimizeCFF"), ok, where(gcs), detail="charstring specialisation follows the option",
           message="getCharString is not given optimize=self.optimizeCFF")
    pcall = [c for c in calls_named(proc, "process_cff")]
    ok = bool(pcall) and all(A.kwarg(x, "optimizeCFF") is not None and isinstance(A.kwarg(x, "optimizeCFF"), ast.Name) for x in pcall)
    chk.ob("R12.3", key(proc, "process_cff(optimizeCFF=...)"), ok, where(proc), detail="the thresholded value is what process_cff receives",
           message="process_cff does not receive the thresholded optimizeCFF")
    masters_force_none(prog, chk, "R12.3")
    chk.minimum("R12.3", 7)

    # ---- R12.5 what is drawn does not depend on the encoding options
    otf = ix.get_class(OTF_OUTLINE)
    n5 = 0
    for m in otf.methods.values():
        if m.name == "__init__":
            continue
        for c in A.body_nodes(m.node):
            if not isinstance(c, ast.Call):
                continue
            n5 += 1
            bad = [g for g in conds(prog, m, c) if any(isinstance(x, (ast.Attribute, ast.Name)) and getattr(x, "attr", getattr(x, "id", "")) in
                                                        ("optimizeCFF", "cffVersion", "subroutinizer") for x in ast.walk(g.test))]
            if bad:
                chk.ob("R12.5", f"{m.short}|{A.keytext(m.node, c)}", False, where(m, c),
                       message=f"`{T(c, 60)}` in {m.short} only happens for some values of {T(bad[0].test, 40)}: what is drawn / built depends on an "
                               f"option that must only affect the encoding")
    chk.ob("R12.5", "OutlineOTFCompiler: no call is conditional on optimizeCFF / cffVersion / subroutinizer", True, otf.module.relpath,
           detail=f"{n5} call sites outside __init__ examined")
    # the option is only consumed as the `optimize=` argument of getCharString
    reads = []
    for m in otf.methods.values():
        for x in A.body_nodes(m.node):
            if isinstance(x, ast.Attribute) and x.attr == "optimizeCFF" and isinstance(x.ctx, ast.Load) and T(x.value) == "self":
                par = prog.ix.parent(x)
                role_ok = isinstance(par, ast.keyword) and par.arg == "optimize"
                reads.append((m, x, role_ok))
    for m, x, role_ok in reads:
        chk.ob("R12.5", f"{m.short}|read of self.optimizeCFF is the optimize= argument", role_ok, where(m, x), detail=T(prog.ix.enclosing_stmt(x), 70),
               message=f"{m.short} uses self.optimizeCFF for something other than the specialiser switch of getCharString")
    # ... and in the constructor the option only determines the field that carries it: nothing else (no other field, no call)
    # is computed from it or happens under a test on it
    init = otf.methods.get("__init__")
    need(init is not None, "OutlineOTFCompiler.__init__ not found")
    carriers = {"optimizeCFF"} & set(init.params())
    need(carriers, "OutlineOTFCompiler.__init__ has no optimizeCFF parameter")

    def mentions(e):
        return any((isinstance(x, ast.Name) and x.id in carriers) or (isinstance(x, ast.Attribute) and x.attr in carriers and T(x.value) == "self") for x in ast.walk(e))
    n_init = 0
    for st in A.stmts_of(init.node):
        if isinstance(st, (ast.If, ast.For, ast.While, ast.With, ast.Try, ast.FunctionDef)):
            continue
        dep_v = mentions(st)
        dep_c = any(mentions(g.test) for g in conds(prog, init, st) if g.polarity in (True, False))
        if not (dep_v or dep_c):
            continue
        n_init += 1
        ok = isinstance(st, ast.Assign) and all((isinstance(t, ast.Name) and t.id in carriers) or (isinstance(t, ast.Attribute) and t.attr in carriers and T(t.value) == "self") for t in st.targets)
        if not ok and isinstance(st, ast.Expr) and isinstance(st.value, ast.Call) and T(st.value.func).startswith("super().__init__") and not dep_c:
            ok = all(not mentions(a) for a in st.value.args) and all(not mentions(k.value) or k.arg in carriers for k in st.value.keywords)
        chk.ob("R12.5", f"{init.short}|{A.keytext(init.node, st)}|the optimisation level only determines the field that carries it", ok, where(init, st), detail=T(st, 80),
               message=f"{init.short}: `{T(st, 70)}` is computed from, or only happens for some values of, the CFF optimisation level: something other than the encoding "
                       f"(rounding tolerance, tables, glyph data) now depends on an option that must not change what is drawn")
    need(n_init >= 2, f"{init.short}: the optimizeCFF normalisation was not found")
    chk.minimum("R12.5", 4)

    # ---- R12.4 plumbing
    rows = []
    for cq in (OTFC, IOTF, VCFF2):
        rows += [(cq, "optimizeCFF", "outline"), (cq, "roundTolerance", "outline"), (cq, "optimizeCFF", "post")]
    rows += [(OTFC, "cffVersion", "post"), (OTFC, "subroutinizer", "post"), (VCFF2, "cffVersion", "post")]
    chk.guard(check_plumbing, prog, chk, "R12.4", rows)
    chk.guard(check_forwarding, prog, chk, "R12.4")
    chk.minimum("R12.4", 15)
    chk.guard(r126, prog, chk)
    chk.guard(r127, prog, chk)
    chk.guard(r128, prog, chk)
    chk.guard(r129, prog, chk)
    from .c01 import r0112
    chk.guard(r0112, prog, chk, "R12.10")


def masters_force_none(prog, chk, rule):
    """Interpolatable OTF masters are compiled with CFFOptimization.NONE whatever the compiler's own option says
    (that option is meant for the merge step).  Shared with C09 (R09.9)."""
    ix = prog.ix
    co = ix.get_method(IOTF, "compileOutlines", own=True)
    cfg = prog.cfg(co)
    st = [s for s, t, v in subscript_stores(co) if A.is_const(t.slice, "optimizeCFF")]
    ctor = [c for c in A.body_nodes(co.node) if isinstance(c, ast.Call) and isinstance(c.func, ast.Attribute) and c.func.attr == "outlineCompilerClass"]
    need(ctor, f"cannot interpret {co.short}")
    okn = bool(st) and all(T(v).endswith("CFFOptimization.NONE") for s, t, v in subscript_stores(co) if A.is_const(t.slice, "optimizeCFF"))
    okd = bool(st) and all(cfg.dominates(cfg.node_of(st[-1]), cfg.node_of(c)) for c in ctor)
    same = bool(st) and all(any(k.arg is None and T(k.value) == T(subscript_stores(co)[0][1].value) for k in c.keywords) for c in ctor)
    chk.ob(rule, key(co, "masters compiled with CFFOptimization.NONE"), okn and okd and same, where(co),
           detail=f"kwargs['optimizeCFF'] = NONE dominates the outline-compiler construction: {okd}",
           message="interpolatable OTF masters are no longer forced to CFFOptimization.NONE (specialised charstrings are not interpolatable)")


def r126(prog, chk):
    """CFF 1 charstring width operand: omitted (None) iff the advance equals
    defaultWidthX, else advance - nominalWidthX, rounded; presence is always tested
    with `is None` (0 is a valid operand: advance == nominalWidthX); every
    charstring comes out of the pen that was given that operand."""
    from .rounding import is_otround
    ix = prog.ix
    otf = ix.get_class(OTF_OUTLINE)
    g = otf.methods["getCharStringForGlyph"]
    pens = [c for c in A.body_nodes(g.node) if isinstance(c, ast.Call) and A.callee_name(c) == "T2CharStringPen"]
    need(len(pens) == 1 and pens[0].args and isinstance(pens[0].args[0], ast.Name), f"cannot interpret {g.short}: T2CharStringPen(width, ...)")
    w = pens[0].args[0].id
    cfg = prog.cfg(g)
    defs = cfg.defs_of(w)
    glyph_p = g.params()[1]
    src = [d for d in defs if d.kind == "assign" and isinstance(d.value, ast.Attribute) and d.value.attr == "width" and T(d.value.value) == glyph_p]
    chk.ob("R12.6", f"{g.short}|operand starts from glyph.width", len(src) == 1, where(g), detail="width = glyph.width",
           message="the charstring width operand is not derived from the glyph's advance width")
    nones = [d for d in defs if d.kind == "assign" and A.is_const(d.value, None)]
    ok = len(nones) == 1
    if ok:
        fs = facts(prog, g, nones[0].binder)
        ok = any(o == "eq" and {l, r} >= {w} and any("default" in x.lower() for x in (l, r)) for o, l, r in fs)
    chk.ob("R12.6", f"{g.short}|operand omitted iff advance == defaultWidthX", ok, where(g, nones[0].binder) if nones else where(g), detail="if width == defaultWidth: width = None",
           message="the width operand is dropped under a condition other than 'advance equals defaultWidthX' (a missing operand means defaultWidthX)")
    subs = [d for d in defs if d.kind == "augassign" and isinstance(d.binder.op, ast.Sub)] + \
           [d for d in defs if d.kind == "assign" and isinstance(d.value, ast.BinOp) and isinstance(d.value.op, ast.Sub) and T(d.value.left) == w]
    ok = len(subs) == 1 and "nominal" in T(subs[0].binder).lower()
    if ok:
        fs = facts(prog, g, subs[0].binder)
        ok = any(o == "ne" and w in (l, r) and any("default" in x.lower() for x in (l, r)) for o, l, r in fs)
    chk.ob("R12.6", f"{g.short}|otherwise operand = advance - nominalWidthX", ok, where(g), detail="else: width -= nominalWidth",
           message="the width operand is not 'advance minus nominalWidthX' on the other branch")
    rounds = [d for d in defs if d.kind == "assign" and is_otround(prog, g, d.value)]
    ok = len(rounds) == 1 and cfg.exists_path(rounds[0].node, [cfg.node_of(pens[0])])
    chk.ob("R12.6", f"{g.short}|operand rounded with otRound before it reaches the pen", ok, where(g), detail="if width is not None: width = otRound(width)",
           message="the width operand is not rounded with otRound before the charstring is built")
    # presence of the operand is never tested by truthiness
    n = 0
    for node in A.body_nodes(g.node):
        tests = []
        if isinstance(node, (ast.If, ast.IfExp, ast.While)):
            tests.append(node.test)
        elif isinstance(node, ast.BoolOp):
            tests += node.values
        elif isinstance(node, ast.UnaryOp) and isinstance(node.op, ast.Not):
            tests.append(node.operand)
        for t in tests:
            if isinstance(t, ast.Name) and t.id == w:
                n += 1
                chk.ob("R12.6", f"{g.short}|{A.keytext(g.node, node)[:60]}", False, where(g, node),
                       message=f"the width operand `{w}` is tested by truthiness (`{T(node, 50)}`): 0 is a valid operand (advance == nominalWidthX) and would be "
                               f"treated like 'omitted', i.e. defaultWidthX - CFF 1 widths then disagree with hmtx and with CFF2 builds")
    chk.ob("R12.6", f"{g.short}|operand presence only tested with `is None`", n == 0, where(g), detail="no truthiness test of the operand")
    # every returned charstring comes from that pen
    for r in A.returns_of(g.node):
        ok, bad = every_origin(prog, g, r.value, lambda x, f: isinstance(x, ast.Call) and A.callee_name(x) == "getCharString" and isinstance(x.func, ast.Attribute), allow_const=False)
        if ok:
            gcs = [c for c in calls_named(g, "getCharString")]
            pen_st = ix.enclosing_stmt(pens[0])
            pn = pen_st.targets[0].id if isinstance(pen_st, ast.Assign) and isinstance(pen_st.targets[0], ast.Name) else None
            ok = all(T(c.func.value) == pn for c in gcs)
        chk.ob("R12.6", f"{g.short}|{A.keytext(g.node, r)}|charstring produced by the pen that holds the operand", ok, where(g, r), detail="pen.getCharString(...)",
               message=f"a charstring is returned that does not come from the T2CharStringPen built with the width operand ({bad})")
    chk.minimum("R12.6", 6)



# ----------------------------------------------------------------------------- R12.7
def r127(prog, chk):
    """The subroutiniser that runs is the one the caller asked for; the per-version default only stands in when the caller
    asked for none.  A backend that cannot handle the requested CFF version therefore reaches its own NotImplementedError
    instead of being replaced silently (unsupported combinations raise, R12.2)."""
    ix = prog.ix
    pc = ix.get_method(PP, "process_cff", own=True)
    subs = [c for c in A.body_nodes(pc.node) if isinstance(c, ast.Call) and A.callee_name(c) == "_subroutinize"]
    need(len(subs) == 1 and subs[0].args, f"cannot interpret {pc.short}: _subroutinize call")
    b = subs[0].args[0]
    need(isinstance(b, ast.Name), f"cannot interpret {pc.short}: backend argument")
    sp = [p_ for p_ in pc.params() if "subroutinizer" in p_.lower()]
    need(len(sp) == 1, f"cannot interpret {pc.short}: subroutinizer parameter")
    sp = sp[0]
    ds = prog.reaching(pc, b.id, b)
    ok = bool(ds)
    why = []
    for d in ds:
        v = d.value
        fs = facts(prog, pc, d.binder) if d.binder is not None else set()
        if isinstance(v, ast.Call) and A.callee_name(v) == "SubroutinizerBackend" and len(v.args) == 1 and T(v.args[0]) == sp:
            okd = any(o == "isnot" and l == sp and r == "None" for o, l, r in fs)
            why.append(f"{T(v, 50)} when {sp} is given" if okd else f"{T(v, 50)} (not under '{sp} is not None')")
        elif isinstance(v, ast.Subscript) and "DEFAULT_SUBROUTINIZER_FOR_CFF_VERSION" in T(v.value):
            okd = any(o == "is" and l == sp and r == "None" for o, l, r in fs)
            why.append("version default when none is given" if okd else "version default although a backend was requested")
        else:
            okd = False
            why.append(f"`{T(v, 50) if v is not None else d.kind}`")
        ok = ok and okd
    chk.ob("R12.7", f"{pc.short}|the requested subroutiniser is the one that runs (the version default only when none was requested)", ok, where(pc, subs[0]), detail="; ".join(why),
           message=f"{pc.short}: the backend handed to _subroutinize is not 'SubroutinizerBackend({sp}) if given, else the default for the output version' ({'; '.join(why)}): an explicit "
                   f"request can be replaced silently instead of raising NotImplementedError for a combination the backend does not support")
    chk.minimum("R12.7", 1)



# ----------------------------------------------------------------------------- R12.8
ENCODING_OPTIONS = ("cffVersion", "optimizeCFF", "subroutinizer")
ENCODING_READERS = ("ufo2ft", "ufo2ft._compilers", "ufo2ft.outlineCompiler", "ufo2ft.postProcessor", "ufo2ft.constants", "ufo2ft.__main__")


def r128(prog, chk):
    """The encoding options (cffVersion, optimizeCFF, subroutinizer) decide how the outlines are WRITTEN, never what they are:
    nothing in the pre-processing pipeline (pre-processors, filters), the feature code or the utilities reads them - not even
    as a parameter name, because the compilers hand every field to any callee parameter of the same name
    (prune_unknown_kwargs(self.__dict__, ...))."""
    ix = prog.ix
    n = 0
    bad = []
    for fi in ix.functions.values():
        mn = fi.module.name
        if mn == "ufo2ft" or any(mn == r_ or mn.startswith(r_ + ".") for r_ in ENCODING_READERS if r_ != "ufo2ft"):
            continue
        n += 1
        if isinstance(fi.node, ast.Lambda):
            continue
        for p_ in fi.params():
            if p_.lstrip("*") in ENCODING_OPTIONS:
                bad.append((fi, fi.node, f"parameter {p_}"))
        for x in A.body_nodes(fi.node):
            if isinstance(x, ast.Name) and x.id in ENCODING_OPTIONS:
                bad.append((fi, x, f"name {x.id}"))
            elif isinstance(x, ast.Attribute) and x.attr in ENCODING_OPTIONS:
                bad.append((fi, x, f"attribute .{x.attr}"))
            elif isinstance(x, ast.Constant) and x.value in ENCODING_OPTIONS and isinstance(ix.parent(x), (ast.Subscript, ast.Call)):
                bad.append((fi, x, f"key {x.value!r}"))
    seen = set()
    for fi, node, what_ in bad:
        k_ = (fi.short, what_)
        if k_ in seen:
            continue
        seen.add(k_)
        chk.ob("R12.8", f"{fi.short}|{what_}|encoding options are not visible outside the compilers, the outline compiler and the post-processor", False, where(fi, node), detail=what_,
               message=f"{fi.short} ({fi.module.name}) reads the encoding option through {what_}: pre-processing / layout code can now produce different outlines or tables "
                       f"depending on how the font is going to be encoded")
    chk.ob("R12.8", "encoding options are read by the compilers, the outline compiler and the post-processor only", not bad, "Lib/ufo2ft", detail=f"{n} functions outside those modules examined", nontrivial=False)
    need(n >= 300, "too few functions examined")
    chk.minimum("R12.8", 1)



# ----------------------------------------------------------------------------- R12.9
def r129(prog, chk):
    """The charstrings encode their width relative to nominalWidthX / defaultWidthX, and the Private DICT stores the same two
    numbers: both consumers take them from getDefaultAndNominalWidths unchanged, and that one producer makes them integers
    (explicit font-info values go through otRound there; the computed optimum is built from rounded advances)."""
    ix = prog.ix
    g = ix.get_method(OTF_OUTLINE, "getDefaultAndNominalWidths", own=True)
    calls = [c for c in A.body_nodes(g.node) if isinstance(c, ast.Call) and A.callee_name(c) == "getAttrWithFallback" and len(c.args) == 2
             and isinstance(c.args[1], ast.Constant) and c.args[1].value in ("postscriptDefaultWidthX", "postscriptNominalWidthX")]
    need(len(calls) == 2, f"cannot interpret {g.short}: explicit widths")
    for c in calls:
        par = ix.parent(c)
        ok = isinstance(par, ast.Call) and A.callee_name(par) == "otRound" and par.args and par.args[0] is c
        chk.ob("R12.9", f"{g.short}|{c.args[1].value} is rounded where it is produced", ok, where(g, c), detail=T(par, 70) if isinstance(par, ast.AST) else "",
               message=f"{g.short}: the explicit {c.args[1].value} leaves the producer unrounded: consumers that round it themselves (charstring widths) and consumers that "
                       f"do not (Private DICT) then disagree, and CFF1 charstrings decode to other advances than hmtx")
    n = 0
    for fi in ix.functions.values():
        if fi is g or not fi.module.name == "ufo2ft.outlineCompiler":
            continue
        for c in calls_named(fi, "getDefaultAndNominalWidths"):
            n += 1
            st = ix.enclosing_stmt(c)
            names = A.target_names(st.targets[0]) if isinstance(st, ast.Assign) else []
            ok = len(names) == 2 and st.value is c
            if ok:
                # every use of the two names is a plain read: passed on / stored as it is (no arithmetic, no rounding of one copy only)
                for nm in names:
                    for u in A.body_nodes(fi.node):
                        if isinstance(u, ast.Name) and u.id == nm and isinstance(u.ctx, ast.Load):
                            pu = ix.parent(u)
                            if isinstance(pu, (ast.BinOp, ast.UnaryOp)) or (isinstance(pu, ast.Call) and u in pu.args and A.callee_name(pu) in ("otRound", "round", "int", "float")):
                                ok = False
            chk.ob("R12.9", f"{fi.short}|the two widths are used as the producer returned them", ok, where(fi, c), detail=T(st, 70),
                   message=f"{fi.short}: default / nominal width are re-derived or re-rounded at a consumer: the charstrings and the Private DICT can disagree")
    need(n >= 2, "consumers of getDefaultAndNominalWidths not found")
    chk.minimum("R12.9", 4)


MUTANTS = [
    M("identical programs share one charstring object (seeded C12k)", "ufo2ft/outlineCompiler.py", "OutlineOTFCompiler.compileGlyphs",
      "compiledGlyphs[glyphName] = cs", "compiledGlyphs[glyphName] = seen.setdefault(tuple(cs.program), cs)", rule="R12.10",
      also=(("ufo2ft/outlineCompiler.py", "OutlineOTFCompiler.compileGlyphs", "compiledGlyphs = {}", "compiledGlyphs = {}\nseen = {}"),)),
    M("rounding tolerance raised when the specialiser is on (seeded C12i)", "ufo2ft/outlineCompiler.py", "OutlineOTFCompiler.__init__",
      "self.optimizeCFF = optimizeCFF", "self.optimizeCFF = optimizeCFF\nif optimizeCFF:\n    self.roundTolerance = max(self.roundTolerance, 0.005)", rule="R12.5"),
    M("optimisation level kept on the compiler under a second name too", "ufo2ft/outlineCompiler.py", "OutlineOTFCompiler.__init__",
      "self.optimizeCFF = optimizeCFF", "self.optimizeCFF = optimizeCFF\nself.specialize = optimizeCFF", rule="R12.5"),
    M("explicit nominal width rounded by the charstring compiler only (seeded C12h)", "ufo2ft/outlineCompiler.py", "OutlineOTFCompiler.getDefaultAndNominalWidths",
      "otRound(getAttrWithFallback(info, 'postscriptNominalWidthX'))", "getAttrWithFallback(info, 'postscriptNominalWidthX')", rule="R12.9"),
    M("overlap removal skipped for CFF2 (seeded C12g)", "ufo2ft/preProcessor.py", "OTFPreProcessor.initDefaultFilters",
      "<rename-param>", "overlapsBackend->cffVersion", rule="R12.8"),
    M("an unsupported explicit backend is replaced by the version default (seeded C12f shape)", "ufo2ft/postProcessor.py", "PostProcessor.process_cff",
      "backend = self.SubroutinizerBackend(subroutinizer)", "backend = self.SubroutinizerBackend(subroutinizer)\nif cffOutputVersion == CFFVersion.CFF2:\n    backend = self.DEFAULT_SUBROUTINIZER_FOR_CFF_VERSION[cffOutputVersion]", rule="R12.7"),
    M("empty glyphs get a hand-built charstring with a truthiness test of the operand (seeded C12b)", "ufo2ft/outlineCompiler.py", "OutlineOTFCompiler.getCharStringForGlyph",
      "pen = T2CharStringPen(width, self.allGlyphs, roundTolerance=self.roundTolerance)",
      "if not len(glyph):\n    return T2CharString(program=[width, 'endchar'] if width else ['endchar'], private=private, globalSubrs=globalSubrs)\npen = T2CharStringPen(width, self.allGlyphs, roundTolerance=self.roundTolerance)", rule="R12.6"),
    M("operand rounded only when non-zero", "ufo2ft/outlineCompiler.py", "OutlineOTFCompiler.getCharStringForGlyph",
      "if width is not None:\n    width = otRound(width)", "if width:\n    width = otRound(width)", rule="R12.6"),
    M("operand omitted when it equals the nominal width", "ufo2ft/outlineCompiler.py", "OutlineOTFCompiler.getCharStringForGlyph",
      "width == defaultWidth", "width == nominalWidth", rule="R12.6"),
    M("nominal width not subtracted", "ufo2ft/outlineCompiler.py", "OutlineOTFCompiler.getCharStringForGlyph",
      "width -= nominalWidth", "pass", rule="R12.6"),
    M("new backend member without a method", "ufo2ft/postProcessor.py", "PostProcessor.SubroutinizerBackend",
      "CFFSUBR = 'cffsubr'", "CFFSUBR = 'cffsubr'\nPYCFFSUBR = 'pycffsubr'", rule="R12.1"),
    M("default table loses CFF2", "ufo2ft/postProcessor.py", "PostProcessor",
      "{1: SubroutinizerBackend.CFFSUBR, 2: SubroutinizerBackend.CFFSUBR}", "{1: SubroutinizerBackend.CFFSUBR}", rule="R12.1"),
    M("compreffor version guard disabled", "ufo2ft/postProcessor.py", "PostProcessor._subroutinize_with_compreffor",
      "cls._get_cff_version(otf) != CFFVersion.CFF or cffVersion != CFFVersion.CFF",
      "cls._get_cff_version(otf) != CFFVersion.CFF and cffVersion != CFFVersion.CFF", rule="R12.2"),
    M("compreffor guard only checks the input", "ufo2ft/postProcessor.py", "PostProcessor._subroutinize_with_compreffor",
      "cls._get_cff_version(otf) != CFFVersion.CFF or cffVersion != CFFVersion.CFF",
      "cls._get_cff_version(otf) != CFFVersion.CFF", rule="R12.2"),
    M("unsupported CFF2->CFF conversion silently ignored", "ufo2ft/postProcessor.py", "PostProcessor.process_cff",
      "raise NotImplementedError('Unsupported CFF conversion {cffInputVersion} => {cffOutputVersion}')",
      "logger.info('ignoring')", rule="R12.2"),
    M("conversion guard checks only the output version", "ufo2ft/postProcessor.py", "PostProcessor.process_cff",
      "cffInputVersion == CFFVersion.CFF and cffOutputVersion == CFFVersion.CFF2", "cffOutputVersion == CFFVersion.CFF2", rule="R12.2"),
    M("post format check dropped", "ufo2ft/postProcessor.py", "PostProcessor.set_post_table_format",
      "if formatType not in (2.0, 3.0):\n    raise NotImplementedError(formatType)", "pass", rule="R12.2"),
    M("outline compiler specialises from NONE up", "ufo2ft/outlineCompiler.py", "OutlineOTFCompiler.__init__",
      "optimizeCFF >= CFFOptimization.SPECIALIZE", "optimizeCFF >= CFFOptimization.NONE", rule="R12.3"),
    M("post-processor subroutinises at SPECIALIZE", "ufo2ft/postProcessor.py", "PostProcessor.process",
      "optimizeCFF >= CFFOptimization.SUBROUTINIZE", "optimizeCFF >= CFFOptimization.SPECIALIZE", rule="R12.3"),
    M("strict comparison excludes the level itself", "ufo2ft/postProcessor.py", "PostProcessor.process",
      "optimizeCFF >= CFFOptimization.SUBROUTINIZE", "optimizeCFF > CFFOptimization.SUBROUTINIZE", rule="R12.3"),
    M("interpolatable OTF masters no longer forced to NONE", "ufo2ft/_compilers/interpolatableOTFCompiler.py", "InterpolatableOTFCompiler.compileOutlines",
      "kwargs['optimizeCFF'] = CFFOptimization.NONE", "pass", rule="R12.3"),
    M("charstring pen ignores the option", "ufo2ft/outlineCompiler.py", "OutlineOTFCompiler.getCharStringForGlyph",
      "pen.getCharString(private, globalSubrs, optimize=self.optimizeCFF)", "pen.getCharString(private, globalSubrs, optimize=True)", rule="R12.3"),
    M("post-processor parameter renamed", "ufo2ft/postProcessor.py", "PostProcessor.process",
      "<rename-param>", "cffVersion->cff_version", rule="R12.4"),
    M("outline compiler parameter renamed", "ufo2ft/outlineCompiler.py", "OutlineOTFCompiler.__init__",
      "<rename-param>", "roundTolerance->tolerance", rule="R12.4"),
    M("OTFCompiler loses the subroutinizer field", "ufo2ft/_compilers/otfCompiler.py", "OTFCompiler",
      "subroutinizer: Optional[str] = None", "pass", rule="R12.4"),
    M("outline stage stops forwarding the options", "ufo2ft/_compilers/baseCompiler.py", "BaseCompiler.compileOutlines",
      "kwargs = prune_unknown_kwargs(self.__dict__, self.outlineCompilerClass)", "kwargs = {}", rule="R12.4"),
    M("unoptimised charstrings drawn through an extra filter pen (cf. seeded/C12a)", "ufo2ft/outlineCompiler.py", "OutlineOTFCompiler.getCharStringForGlyph",
      "glyph.draw(pen)", "if self.optimizeCFF:\n    glyph.draw(pen)\nelse:\n    glyph.draw(ReverseContourPen(pen))", rule="R12.5"),
    # equivalents
    M("De Morgan form of the compreffor guard", "ufo2ft/postProcessor.py", "PostProcessor._subroutinize_with_compreffor",
      "cls._get_cff_version(otf) != CFFVersion.CFF or cffVersion != CFFVersion.CFF",
      "not (cls._get_cff_version(otf) == CFFVersion.CFF and cffVersion == CFFVersion.CFF)", kind="equiv"),
    M("nested ifs in the conversion guard", "ufo2ft/postProcessor.py", "PostProcessor.process_cff",
      "if cffInputVersion == CFFVersion.CFF and cffOutputVersion == CFFVersion.CFF2:\n    logger.info('Converting CFF table to CFF2')\n    convertCFFToCFF2(self.otf)\nelse:\n    raise NotImplementedError('Unsupported CFF conversion {cffInputVersion} => {cffOutputVersion}')",
      "if cffInputVersion != CFFVersion.CFF or cffOutputVersion != CFFVersion.CFF2:\n    raise NotImplementedError('unsupported')\nconvertCFFToCFF2(self.otf)", kind="equiv"),
]
