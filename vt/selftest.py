"""Thorough tier: self-validation of the rules against the *current* tree.

For every property a registered corpus of AST-level edits is applied, one at a
time, to an in-memory overlay of /repo/Lib/ufo2ft (nothing is written into /repo
and no repository code is executed):

  * breaking edits - realistic single-site regressions the rules exist for; the
    property check must report an unlisted violation for each;
  * equivalent edits - behaviour-preserving rewrites (full re-formatting through
    ast.unparse, renaming of every local variable in the package, plus
    hand-written ones); the check must stay exactly as on the unedited tree.

An edit whose pattern no longer matches the tree is counted as `stale` (the
source moved on) and reported; if fewer than half of a property's breaking
edits still apply the self-validation is reported as broken.
"""

from __future__ import annotations

import ast
import copy
import importlib
import os
import random
import sys
from concurrent.futures import ProcessPoolExecutor
from dataclasses import dataclass, field
from typing import Dict, List, Optional, Tuple

from .core.index import AnalysisError, repo_root


@dataclass
class M:
    name: str
    file: str  # relative to Lib/, e.g. "ufo2ft/util.py"
    func: Optional[str]  # "Class.method" / "function" / None for module level
    old: str
    new: str
    kind: str = "break"  # break | equiv
    rule: Optional[str] = None  # expected rule id prefix (informational + checked when given)
    count: int = 1  # number of places the pattern must match (all are replaced)
    note: str = ""
    also: tuple = ()  # further (file, func, old, new) edits applied together with this one (multi-site regressions)


class StaleMutant(Exception):
    pass


# ----------------------------------------------------------------------------- AST edit
def _parse_snippet(src: str):
    tree = ast.parse(src)
    if len(tree.body) == 1 and isinstance(tree.body[0], ast.Expr):
        return "expr", tree.body[0].value
    return "stmts", tree.body


def _find_scope(tree: ast.Module, func: Optional[str]):
    if not func:
        return tree
    parts = func.split(".")
    scope = tree
    for p in parts:
        found = None
        for n in ast.walk(scope) if scope is tree and False else _iter_defs(scope):
            if isinstance(n, (ast.FunctionDef, ast.AsyncFunctionDef, ast.ClassDef)) and n.name == p:
                found = n
                break
        if found is None:
            raise StaleMutant(f"scope {func} not found")
        scope = found
    return scope


def _iter_defs(scope):
    # direct and conditional children (if/try at module level)
    stack = list(ast.iter_child_nodes(scope))
    while stack:
        n = stack.pop(0)
        if isinstance(n, (ast.FunctionDef, ast.AsyncFunctionDef, ast.ClassDef)):
            yield n
            continue
        if isinstance(n, (ast.If, ast.Try, ast.With)):
            stack.extend(ast.iter_child_nodes(n))


def _dump(n):
    return ast.dump(n, annotate_fields=True, include_attributes=False)


class _ExprReplacer(ast.NodeTransformer):
    def __init__(self, old, new):
        self.old = _dump(old)
        self.new = new
        self.hits = 0

    def generic_visit(self, node):
        if isinstance(node, ast.expr) and _dump(node) == self.old:
            self.hits += 1
            return copy.deepcopy(self.new)
        return super().generic_visit(node)

    def visit(self, node):
        if isinstance(node, ast.expr) and _dump(node) == self.old:
            self.hits += 1
            return copy.deepcopy(self.new)
        return super().visit(node)


def _replace_stmts(scope, old: List[ast.stmt], new: List[ast.stmt]) -> int:
    hits = 0
    olds = [_dump(s) for s in old]
    for node in ast.walk(scope):
        for fld in ("body", "orelse", "finalbody"):
            body = getattr(node, fld, None)
            if not isinstance(body, list) or not body or not isinstance(body[0], ast.stmt):
                continue
            i = 0
            while i <= len(body) - len(olds):
                if [_dump(s) for s in body[i:i + len(olds)]] == olds:
                    body[i:i + len(olds)] = copy.deepcopy(new) if new else [ast.Pass()]
                    hits += 1
                    i += max(len(new), 1)
                else:
                    i += 1
    return hits


def apply_mutant(src: str, m: M) -> str:
    tree = ast.parse(src)
    scope = _find_scope(tree, m.func)
    if m.old == "<remove-keyword>":
        # new = "<module-level name>:<keyword>": drop one keyword from `name = dict(k=v, ...)`
        target, kw = m.new.split(":")
        hit = 0
        for n in ast.walk(scope):
            if isinstance(n, ast.Assign) and any(isinstance(t, ast.Name) and t.id == target for t in n.targets) \
                    and isinstance(n.value, ast.Call):
                before = len(n.value.keywords)
                n.value.keywords = [k for k in n.value.keywords if k.arg != kw]
                hit += before - len(n.value.keywords)
        if hit != 1:
            raise StaleMutant(f"keyword {kw} of {target} not found")
        return ast.unparse(tree)
    if m.old == "<append-module>":
        return src + "\n\n" + m.new + "\n"
    if m.old == "<add-method>":
        if not isinstance(scope, ast.ClassDef):
            raise StaleMutant("<add-method> needs a class scope")
        scope.body.extend(ast.parse(m.new).body)
        ast.fix_missing_locations(tree)
        return ast.unparse(tree)
    if m.old == "<decorate>":
        # new = dotted decorator expression added to the function
        scope.decorator_list.insert(0, ast.parse(m.new, mode="eval").body)
        ast.fix_missing_locations(tree)
        return ast.unparse(tree)
    if m.old == "<rename-param>":
        a, b = m.new.split("->")
        hit = 0
        for arg in scope.args.posonlyargs + scope.args.args + scope.args.kwonlyargs:
            if arg.arg == a:
                arg.arg = b
                hit += 1
        if hit != 1:
            raise StaleMutant(f"parameter {a} not found")
        for n in ast.walk(scope):
            if isinstance(n, ast.Name) and n.id == a:
                n.id = b
        return ast.unparse(tree)
    kind_o, old = _parse_snippet(m.old)
    kind_n, new = _parse_snippet(m.new) if m.new.strip() else ("stmts", [])
    if kind_o == "expr" and kind_n == "expr":
        r = _ExprReplacer(old, new)
        if scope is tree:
            tree = r.visit(tree)
        else:
            r.generic_visit(scope)
        hits = r.hits
    else:
        if kind_o == "expr":
            old = [ast.Expr(old)]
        if kind_n == "expr":
            new = [ast.Expr(new)]
        hits = _replace_stmts(scope, old, new)
    if hits != m.count:
        raise StaleMutant(f"pattern matched {hits} time(s), expected {m.count}")
    ast.fix_missing_locations(tree)
    return ast.unparse(tree)


# -------------------------------------------------------------------- generic equivalents
def reformat_all(sources: Dict[str, str]) -> Dict[str, str]:
    return {p: ast.unparse(ast.parse(s)) for p, s in sources.items()}


class _Renamer(ast.NodeTransformer):
    def __init__(self, mapping):
        self.mapping = mapping

    def visit_Name(self, node):
        if node.id in self.mapping:
            node.id = self.mapping[node.id]
        return node

    def visit_FunctionDef(self, node):
        return node  # nested defs untouched (names used there are excluded anyway)

    visit_AsyncFunctionDef = visit_FunctionDef
    visit_ClassDef = visit_FunctionDef


def _local_renames(fn: ast.AST) -> Dict[str, str]:
    params = {a.arg for a in fn.args.posonlyargs + fn.args.args + fn.args.kwonlyargs}
    if fn.args.vararg:
        params.add(fn.args.vararg.arg)
    if fn.args.kwarg:
        params.add(fn.args.kwarg.arg)
    assigned, banned = set(), set(params)
    body_nodes = []
    stack = list(fn.body)
    while stack:
        n = stack.pop()
        body_nodes.append(n)
        if isinstance(n, (ast.FunctionDef, ast.AsyncFunctionDef, ast.ClassDef)):
            banned.add(n.name)
            for sub in ast.walk(n):
                if isinstance(sub, ast.Name):
                    banned.add(sub.id)
                elif isinstance(sub, ast.arg):
                    banned.add(sub.arg)
            continue
        stack.extend(ast.iter_child_nodes(n))
    for n in body_nodes:
        if isinstance(n, (ast.Global, ast.Nonlocal)):
            banned.update(n.names)
        elif isinstance(n, ast.Lambda):
            for a in n.args.posonlyargs + n.args.args + n.args.kwonlyargs:
                banned.add(a.arg)
        elif isinstance(n, ast.comprehension):
            for t in ast.walk(n.target):
                if isinstance(t, ast.Name):
                    banned.add(t.id)
        elif isinstance(n, (ast.Import, ast.ImportFrom)):
            for al in n.names:
                banned.add((al.asname or al.name).split(".")[0])
        elif isinstance(n, ast.ExceptHandler) and n.name:
            banned.add(n.name)
        elif isinstance(n, ast.Name) and isinstance(n.ctx, (ast.Store, ast.Del)):
            assigned.add(n.id)
    names = {x for x in assigned - banned if not x.startswith("__") and x not in ("self", "cls", "_")}
    return {x: f"{x}_rn" for x in names}


def pass_between_statements(sources: Dict[str, str]) -> Dict[str, str]:
    """Insert a `pass` between every two statements of every function body (and nested
    blocks): nothing changes, but rules that rely on two statements being neighbours,
    or on a statement being the first / last of a block, are exposed."""
    out = {}

    def pad(stmts, keep_first_doc=False):
        res = []
        for i, st in enumerate(stmts):
            for fld in ("body", "orelse", "finalbody"):
                sub = getattr(st, fld, None)
                if isinstance(sub, list) and sub and isinstance(sub[0], ast.stmt) and not isinstance(st, (ast.ClassDef,)):
                    setattr(st, fld, pad(sub, isinstance(st, (ast.FunctionDef, ast.AsyncFunctionDef))))
            for h in getattr(st, "handlers", []) or []:
                h.body = pad(h.body)
            res.append(st)
            is_doc = i == 0 and keep_first_doc and isinstance(st, ast.Expr) and isinstance(st.value, ast.Constant) and isinstance(st.value.value, str)
            if i < len(stmts) - 1 and not is_doc:
                res.append(ast.Pass())
        return res

    for p, s in sources.items():
        tree = ast.parse(s)
        for n in ast.walk(tree):
            if isinstance(n, (ast.FunctionDef, ast.AsyncFunctionDef)):
                n.body = pad(n.body, True)
        ast.fix_missing_locations(tree)
        out[p] = ast.unparse(tree)
    return out


def log_at_function_start(sources: Dict[str, str]) -> Dict[str, str]:
    """Put a logging call at the top of every function (after the docstring)."""
    out = {}
    for p, s in sources.items():
        tree = ast.parse(s)
        for n in ast.walk(tree):
            if isinstance(n, (ast.FunctionDef, ast.AsyncFunctionDef)) and not any(isinstance(d, ast.Name) and d.id in ("property", "cached_property") for d in n.decorator_list):
                stmt = ast.parse("__import__('logging').getLogger(__name__).debug('enter')").body[0]
                i = 1 if n.body and isinstance(n.body[0], ast.Expr) and isinstance(n.body[0].value, ast.Constant) and isinstance(n.body[0].value.value, str) else 0
                n.body.insert(i, stmt)
        ast.fix_missing_locations(tree)
        out[p] = ast.unparse(tree)
    return out


def annotate_single_assignments(sources: Dict[str, str]) -> Dict[str, str]:
    """Turn `x = value` into `x: object = value` for every local that is bound exactly once
    in its function (a typical typing clean-up)."""
    out = {}
    for p, s in sources.items():
        tree = ast.parse(s)
        for fn in ast.walk(tree):
            if not isinstance(fn, (ast.FunctionDef, ast.AsyncFunctionDef)):
                continue
            counts: Dict[str, int] = {}
            for n in ast.walk(fn):
                if isinstance(n, ast.Name) and isinstance(n.ctx, (ast.Store, ast.Del)):
                    counts[n.id] = counts.get(n.id, 0) + 1
                elif isinstance(n, (ast.Global, ast.Nonlocal)):
                    for nm in n.names:
                        counts[nm] = 99
            for a in fn.args.posonlyargs + fn.args.args + fn.args.kwonlyargs:
                counts[a.arg] = 99

            def conv(stmts):
                for i, st in enumerate(stmts):
                    if isinstance(st, ast.Assign) and len(st.targets) == 1 and isinstance(st.targets[0], ast.Name) and counts.get(st.targets[0].id) == 1:
                        stmts[i] = ast.copy_location(ast.AnnAssign(target=st.targets[0], annotation=ast.Name(id="object", ctx=ast.Load()), value=st.value, simple=1), st)
                    elif not isinstance(st, (ast.FunctionDef, ast.AsyncFunctionDef, ast.ClassDef)):
                        for fld in ("body", "orelse", "finalbody"):
                            sub = getattr(st, fld, None)
                            if isinstance(sub, list) and sub and isinstance(sub[0], ast.stmt):
                                conv(sub)
                        for h in getattr(st, "handlers", []) or []:
                            conv(h.body)
            conv(fn.body)
        ast.fix_missing_locations(tree)
        out[p] = ast.unparse(tree)
    return out


def swap_if_else(sources: Dict[str, str]) -> Dict[str, str]:
    """`if t: A else: B` -> `if not t: B else: A` for every plain two-branch if (no elif chain)."""
    out = {}
    for p, s in sources.items():
        tree = ast.parse(s)
        for n in ast.walk(tree):
            if isinstance(n, ast.If) and n.orelse and not (len(n.orelse) == 1 and isinstance(n.orelse[0], ast.If)):
                par_chain = False
                n.test = n.test.operand if isinstance(n.test, ast.UnaryOp) and isinstance(n.test.op, ast.Not) else ast.UnaryOp(op=ast.Not(), operand=n.test)
                n.body, n.orelse = n.orelse, n.body
        ast.fix_missing_locations(tree)
        out[p] = ast.unparse(tree)
    return out


def sort_methods(sources: Dict[str, str]) -> Dict[str, str]:
    """Methods of every class in reverse source order (class-level assignments stay in front)."""
    out = {}
    for p, s in sources.items():
        tree = ast.parse(s)
        for n in ast.walk(tree):
            if isinstance(n, ast.ClassDef):
                defs = [b for b in n.body if isinstance(b, (ast.FunctionDef, ast.AsyncFunctionDef)) and not any(
                    isinstance(d, ast.Attribute) and d.attr in ("setter", "getter", "deleter") for d in b.decorator_list)]
                keep = [b for b in n.body if b not in defs]
                if len(defs) > 1 and not any(isinstance(b, (ast.FunctionDef, ast.AsyncFunctionDef)) for b in keep):
                    # class-level statements that use a method (name = staticmethod(f)) would break: only classes where all non-def statements precede the defs
                    idx_last_keep = max([n.body.index(b) for b in keep], default=-1)
                    idx_first_def = min(n.body.index(b) for b in defs)
                    if idx_last_keep < idx_first_def:
                        n.body = keep + list(reversed(defs))
        ast.fix_missing_locations(tree)
        out[p] = ast.unparse(tree)
    return out


def keywords_at_call_sites(sources: Dict[str, str]) -> Dict[str, str]:
    """f(a, b) -> f(x=a, y=b) for calls of package functions whose name is defined exactly once in the package
    (plain-name calls and self.method calls; no *args / positional-only parameters)."""
    defs: Dict[str, list] = {}
    trees = {p: ast.parse(s) for p, s in sources.items()}
    for p, tree in trees.items():
        for n in ast.walk(tree):
            if isinstance(n, (ast.FunctionDef, ast.AsyncFunctionDef)):
                defs.setdefault(n.name, []).append(n)
            elif isinstance(n, ast.ClassDef):
                defs.setdefault(n.name, []).append(n)  # a class of that name: constructor call, leave alone
    out = {}
    for p, tree in trees.items():
        for n in ast.walk(tree):
            if not isinstance(n, ast.Call) or not n.args or any(isinstance(a, ast.Starred) for a in n.args):
                continue
            is_self = isinstance(n.func, ast.Attribute) and isinstance(n.func.value, ast.Name) and n.func.value.id == "self"
            name = n.func.id if isinstance(n.func, ast.Name) else n.func.attr if is_self else None
            ds = defs.get(name or "", [])
            if len(ds) != 1 or not isinstance(ds[0], (ast.FunctionDef, ast.AsyncFunctionDef)):
                continue
            d = ds[0]
            if d.args.posonlyargs or d.args.vararg or d.decorator_list:
                continue
            params = [a.arg for a in d.args.args]
            if is_self:
                if not params or params[0] not in ("self", "cls"):
                    continue
                params = params[1:]
            elif params and params[0] in ("self", "cls"):
                continue
            if len(n.args) > len(params) or any(k.arg in params[:len(n.args)] for k in n.keywords if k.arg):
                continue
            n.keywords = [ast.keyword(arg=params[i], value=a) for i, a in enumerate(n.args)] + n.keywords
            n.args = []
        ast.fix_missing_locations(tree)
        out[p] = ast.unparse(tree)
    return out


def positional_at_call_sites(sources: Dict[str, str]) -> Dict[str, str]:
    """f(a, y=b) -> f(a, b) where y is the next positional parameter of a package function whose name is defined once."""
    defs: Dict[str, list] = {}
    trees = {p: ast.parse(s) for p, s in sources.items()}
    for p, tree in trees.items():
        for n in ast.walk(tree):
            if isinstance(n, (ast.FunctionDef, ast.AsyncFunctionDef, ast.ClassDef)):
                defs.setdefault(n.name, []).append(n)
    out = {}
    for p, tree in trees.items():
        for n in ast.walk(tree):
            if not isinstance(n, ast.Call) or not n.keywords or any(isinstance(a, ast.Starred) for a in n.args):
                continue
            is_self = isinstance(n.func, ast.Attribute) and isinstance(n.func.value, ast.Name) and n.func.value.id == "self"
            name = n.func.id if isinstance(n.func, ast.Name) else n.func.attr if is_self else None
            ds = defs.get(name or "", [])
            if len(ds) != 1 or not isinstance(ds[0], (ast.FunctionDef, ast.AsyncFunctionDef)):
                continue
            d = ds[0]
            if d.args.posonlyargs or d.args.vararg or d.decorator_list:
                continue
            params = [a.arg for a in d.args.args]
            if is_self:
                if not params or params[0] not in ("self", "cls"):
                    continue
                params = params[1:]
            elif params and params[0] in ("self", "cls"):
                continue
            while len(n.args) < len(params):
                kw = [k for k in n.keywords if k.arg == params[len(n.args)]]
                if len(kw) != 1:
                    break
                n.keywords.remove(kw[0])
                n.args.append(kw[0].value)
        ast.fix_missing_locations(tree)
        out[p] = ast.unparse(tree)
    return out


def rename_private_params(sources: Dict[str, str]) -> Dict[str, str]:
    """Every parameter of every private function / method (name starts with one underscore, defined exactly once in
    the package, not overriding anything by name) gets a new name; keyword arguments at its call sites follow."""
    trees = {p: ast.parse(s) for p, s in sources.items()}
    defs: Dict[str, list] = {}
    for tree in trees.values():
        for n in ast.walk(tree):
            if isinstance(n, (ast.FunctionDef, ast.AsyncFunctionDef, ast.ClassDef)):
                defs.setdefault(n.name, []).append(n)
    renames: Dict[str, Dict[str, str]] = {}
    for name, ds in defs.items():
        if len(ds) != 1 or not isinstance(ds[0], (ast.FunctionDef, ast.AsyncFunctionDef)):
            continue
        if not name.startswith("_") or name.startswith("__") or ds[0].decorator_list:
            continue
        d = ds[0]
        mp = {}
        for a in d.args.posonlyargs + d.args.args + d.args.kwonlyargs:
            if a.arg in ("self", "cls"):
                continue
            mp[a.arg] = a.arg + "_p"
        # nested functions / lambdas / comprehensions inside may capture the names: rename all Name nodes in the body
        inner_defs = [x for x in ast.walk(d) if x is not d and isinstance(x, (ast.FunctionDef, ast.AsyncFunctionDef, ast.Lambda))]
        shadow = {a.arg for x in inner_defs for a in x.args.args + x.args.kwonlyargs}
        mp = {k: v for k, v in mp.items() if k not in shadow}
        if not mp:
            continue
        for a in d.args.posonlyargs + d.args.args + d.args.kwonlyargs:
            if a.arg in mp:
                a.arg = mp[a.arg]
        for x in ast.walk(d):
            if isinstance(x, ast.Name) and x.id in mp:
                x.id = mp[x.id]
        renames[name] = mp
    for tree in trees.values():
        for n in ast.walk(tree):
            if isinstance(n, ast.Call):
                nm = n.func.id if isinstance(n.func, ast.Name) else n.func.attr if isinstance(n.func, ast.Attribute) else None
                if nm in renames:
                    for k in n.keywords:
                        if k.arg in renames[nm]:
                            k.arg = renames[nm][k.arg]
    out = {}
    for p, tree in trees.items():
        ast.fix_missing_locations(tree)
        out[p] = ast.unparse(tree)
    return out


def alias_self_context(sources: Dict[str, str]) -> Dict[str, str]:
    """`ctx_ = self.context` at the start of every method that only reads self.context (at least twice, never
    assigns it, calls neither set_context / setContext nor a super().__call__), and `ctx_` used instead."""
    out = {}
    for p, s in sources.items():
        tree = ast.parse(s)
        for fn in ast.walk(tree):
            if not isinstance(fn, (ast.FunctionDef, ast.AsyncFunctionDef)) or not fn.args.args or fn.args.args[0].arg != "self":
                continue
            uses, bad = [], False
            for n in ast.walk(fn):
                if isinstance(n, ast.Attribute) and n.attr == "context" and isinstance(n.value, ast.Name) and n.value.id == "self":
                    if isinstance(n.ctx, ast.Load):
                        uses.append(n)
                    else:
                        bad = True
                if isinstance(n, ast.Call):
                    cn = n.func.attr if isinstance(n.func, ast.Attribute) else n.func.id if isinstance(n.func, ast.Name) else ""
                    if cn in ("set_context", "setContext", "__call__", "write"):
                        bad = True
                if isinstance(n, (ast.FunctionDef, ast.AsyncFunctionDef, ast.Lambda)) and n is not fn:
                    bad = True  # closures: leave alone
            if bad or len(uses) < 2:
                continue

            class R(ast.NodeTransformer):
                def visit_Attribute(self, node):
                    self.generic_visit(node)
                    if node.attr == "context" and isinstance(node.value, ast.Name) and node.value.id == "self" and isinstance(node.ctx, ast.Load):
                        return ast.copy_location(ast.Name(id="ctx_", ctx=ast.Load()), node)
                    return node
            fn.body = [R().visit(st) for st in fn.body]
            first = 1 if fn.body and isinstance(fn.body[0], ast.Expr) and isinstance(fn.body[0].value, ast.Constant) and isinstance(fn.body[0].value.value, str) else 0
            fn.body.insert(first, ast.Assign(targets=[ast.Name(id="ctx_", ctx=ast.Store())],
                                             value=ast.Attribute(value=ast.Name(id="self", ctx=ast.Load()), attr="context", ctx=ast.Load())))
        ast.fix_missing_locations(tree)
        out[p] = ast.unparse(tree)
    return out


def invert_continue_guards(sources: Dict[str, str]) -> Dict[str, str]:
    """Inside loop bodies: `if c: continue` followed by the rest  ->  `if not c: <rest>`."""
    def conv(body):
        for i, st in enumerate(body):
            if isinstance(st, ast.If) and not st.orelse and len(st.body) == 1 and isinstance(st.body[0], ast.Continue) and i + 1 < len(body):
                rest = conv(body[i + 1:])
                t = st.test.operand if isinstance(st.test, ast.UnaryOp) and isinstance(st.test.op, ast.Not) else ast.UnaryOp(op=ast.Not(), operand=st.test)
                new = ast.If(test=t, body=rest, orelse=[])
                ast.copy_location(new, st)
                return body[:i] + [new]
        return body
    out = {}
    for p, s in sources.items():
        tree = ast.parse(s)
        for n in ast.walk(tree):
            if isinstance(n, (ast.For, ast.While)):
                n.body = conv(n.body)
        ast.fix_missing_locations(tree)
        out[p] = ast.unparse(tree)
    return out


def temp_before_return(sources: Dict[str, str]) -> Dict[str, str]:
    """`return <expr>` -> `result_f = <expr>; return result_f` for every return of a non-trivial expression."""
    def conv(body, tmp="result_"):
        out = []
        for st in body:
            for fld in ("body", "orelse", "finalbody"):
                sub = getattr(st, fld, None)
                if isinstance(sub, list) and sub and isinstance(sub[0], ast.stmt) and not isinstance(st, (ast.FunctionDef, ast.AsyncFunctionDef, ast.ClassDef)):
                    setattr(st, fld, conv(sub, tmp))
            for h in getattr(st, "handlers", []) or []:
                h.body = conv(h.body, tmp)
            if isinstance(st, ast.Return) and st.value is not None and not isinstance(st.value, (ast.Name, ast.Constant)):
                a = ast.Assign(targets=[ast.Name(id=tmp, ctx=ast.Store())], value=st.value)
                ast.copy_location(a, st)
                r = ast.Return(value=ast.Name(id=tmp, ctx=ast.Load()))
                ast.copy_location(r, st)
                out += [a, r]
            else:
                out.append(st)
        return out
    res = {}
    for p, s in sources.items():
        tree = ast.parse(s)
        for fn in ast.walk(tree):
            if isinstance(fn, (ast.FunctionDef, ast.AsyncFunctionDef)):
                fn.body = conv(fn.body, "result_" + fn.name.strip("_"))
        ast.fix_missing_locations(tree)
        res[p] = ast.unparse(tree)
    return res


def de_morgan_tests(sources: Dict[str, str]) -> Dict[str, str]:
    """Every `if` / `while` / conditional-expression test that is `a or b` becomes `not (not a and not b)` and every
    `a and b` becomes `not (not a or not b)` (top-level operator of the test only)."""
    def neg(e):
        return e.operand if isinstance(e, ast.UnaryOp) and isinstance(e.op, ast.Not) else ast.UnaryOp(op=ast.Not(), operand=e)
    out = {}
    for p, s in sources.items():
        tree = ast.parse(s)
        for n in ast.walk(tree):
            if isinstance(n, (ast.If, ast.While, ast.IfExp)) and isinstance(n.test, ast.BoolOp):
                t = n.test
                inner = ast.BoolOp(op=ast.And() if isinstance(t.op, ast.Or) else ast.Or(), values=[neg(v) for v in t.values])
                n.test = ast.UnaryOp(op=ast.Not(), operand=inner)
        ast.fix_missing_locations(tree)
        out[p] = ast.unparse(tree)
    return out


def swap_equality_operands(sources: Dict[str, str]) -> Dict[str, str]:
    """`a == b` -> `b == a`, `a != b` -> `b != a` for every single-operator comparison whose right side is not a constant."""
    out = {}
    for p, s in sources.items():
        tree = ast.parse(s)
        for n in ast.walk(tree):
            if isinstance(n, ast.Compare) and len(n.ops) == 1 and isinstance(n.ops[0], (ast.Eq, ast.NotEq)) and not isinstance(n.comparators[0], ast.Constant) \
                    and not isinstance(n.left, ast.Constant):
                n.left, n.comparators[0] = n.comparators[0], n.left
        ast.fix_missing_locations(tree)
        out[p] = ast.unparse(tree)
    return out


def merge_nested_ifs(sources: Dict[str, str]) -> Dict[str, str]:
    """`if a:` whose whole body is `if b: X` (no else anywhere) becomes `if a and b: X`; and every `if a and b: X` without
    else that was not produced this way is split into nested ifs."""
    out = {}
    for p, s in sources.items():
        tree = ast.parse(s)
        merged = set()
        for n in ast.walk(tree):
            if isinstance(n, ast.If) and not n.orelse and len(n.body) == 1 and isinstance(n.body[0], ast.If) and not n.body[0].orelse:
                inner = n.body[0]
                n.test = ast.BoolOp(op=ast.And(), values=[n.test, inner.test])
                n.body = inner.body
                merged.add(id(n))
        for n in ast.walk(tree):
            if isinstance(n, ast.If) and id(n) not in merged and not n.orelse and isinstance(n.test, ast.BoolOp) and isinstance(n.test.op, ast.And) and len(n.test.values) == 2:
                a, b = n.test.values
                inner = ast.If(test=b, body=n.body, orelse=[])
                ast.copy_location(inner, n)
                n.test, n.body = a, [inner]
        ast.fix_missing_locations(tree)
        out[p] = ast.unparse(tree)
    return out


def empty_literals_as_calls(sources: Dict[str, str]) -> Dict[str, str]:
    """`[]` -> `list()`, `{}` -> `dict()` wherever an empty display is used as a value."""
    class R(ast.NodeTransformer):
        def visit_List(self, node):
            self.generic_visit(node)
            if not node.elts and isinstance(node.ctx, ast.Load):
                return ast.copy_location(ast.Call(func=ast.Name(id="list", ctx=ast.Load()), args=[], keywords=[]), node)
            return node

        def visit_Dict(self, node):
            self.generic_visit(node)
            if not node.keys:
                return ast.copy_location(ast.Call(func=ast.Name(id="dict", ctx=ast.Load()), args=[], keywords=[]), node)
            return node

        def visit_arguments(self, node):
            return node  # default values stay literals
    out = {}
    for p, s in sources.items():
        tree = R().visit(ast.parse(s))
        ast.fix_missing_locations(tree)
        out[p] = ast.unparse(tree)
    return out


def hoist_string_keys(sources: Dict[str, str]) -> Dict[str, str]:
    """String literals used as subscript keys or as the key argument of .get / .pop / .setdefault become module-level
    constants (`lib["public.skipExportGlyphs"]` -> `lib[_KEY_3]`)."""
    out = {}
    for p, s in sources.items():
        tree = ast.parse(s)
        names: Dict[str, str] = {}

        def const_for(v):
            if v not in names:
                names[v] = f"_KEY_{len(names)}"
            return ast.Name(id=names[v], ctx=ast.Load())
        for n in ast.walk(tree):
            if isinstance(n, ast.Subscript) and isinstance(n.slice, ast.Constant) and isinstance(n.slice.value, str) and len(n.slice.value) > 3:
                n.slice = const_for(n.slice.value)
            elif isinstance(n, ast.Call) and isinstance(n.func, ast.Attribute) and n.func.attr in ("get", "pop", "setdefault") and n.args \
                    and isinstance(n.args[0], ast.Constant) and isinstance(n.args[0].value, str) and len(n.args[0].value) > 3:
                n.args[0] = const_for(n.args[0].value)
        if names:
            idx = 0
            for i, st in enumerate(tree.body):
                if isinstance(st, (ast.Import, ast.ImportFrom)) or (i == 0 and isinstance(st, ast.Expr) and isinstance(st.value, ast.Constant)):
                    idx = i + 1
            defs = [ast.Assign(targets=[ast.Name(id=nm, ctx=ast.Store())], value=ast.Constant(value=v)) for v, nm in names.items()]
            tree.body[idx:idx] = defs
        ast.fix_missing_locations(tree)
        out[p] = ast.unparse(tree)
    return out


def explain_if_tests(sources: Dict[str, str]) -> Dict[str, str]:
    """`if <compound test>:` -> `cond_n = <compound test>` on the line before and `if cond_n:` (explaining variable)."""
    out = {}
    for p, s in sources.items():
        tree = ast.parse(s)
        counter = [0]

        def conv(body):
            res = []
            for st in body:
                for fld in ("body", "orelse", "finalbody"):
                    sub = getattr(st, fld, None)
                    if isinstance(sub, list) and sub and isinstance(sub[0], ast.stmt) and not isinstance(st, (ast.ClassDef,)):
                        setattr(st, fld, conv(sub))
                for h in getattr(st, "handlers", []) or []:
                    h.body = conv(h.body)
                if isinstance(st, ast.If) and isinstance(st.test, (ast.BoolOp, ast.Compare)) and not any(isinstance(x, ast.NamedExpr) for x in ast.walk(st.test)):
                    counter[0] += 1
                    nm = f"cond_{counter[0]}"
                    a = ast.Assign(targets=[ast.Name(id=nm, ctx=ast.Store())], value=st.test)
                    ast.copy_location(a, st)
                    st.test = ast.copy_location(ast.Name(id=nm, ctx=ast.Load()), st.test)
                    res.append(a)
                res.append(st)
            return res
        for fn in ast.walk(tree):
            if isinstance(fn, (ast.FunctionDef, ast.AsyncFunctionDef)):
                fn.body = conv(fn.body)
        ast.fix_missing_locations(tree)
        out[p] = ast.unparse(tree)
    return out


def invert_return_guards(sources: Dict[str, str]) -> Dict[str, str]:
    """At the top level of a function body: `if c: return` (bare) followed by the rest  ->  `if not c: <rest>`."""
    def conv(body):
        for i, st in enumerate(body):
            if isinstance(st, ast.If) and not st.orelse and len(st.body) == 1 and isinstance(st.body[0], ast.Return) and (st.body[0].value is None or (
                    isinstance(st.body[0].value, ast.Constant) and st.body[0].value.value is None)) and i + 1 < len(body):
                rest = conv(body[i + 1:])
                if any(isinstance(x, ast.Return) and x.value is not None and not (isinstance(x.value, ast.Constant) and x.value.value is None) for r_ in rest for x in ast.walk(r_)):
                    return body  # the rest returns values: falling off the end would differ
                t = st.test.operand if isinstance(st.test, ast.UnaryOp) and isinstance(st.test.op, ast.Not) else ast.UnaryOp(op=ast.Not(), operand=st.test)
                new = ast.If(test=t, body=rest, orelse=[])
                ast.copy_location(new, st)
                return body[:i] + [new]
        return body
    out = {}
    for p, s in sources.items():
        tree = ast.parse(s)
        for n in ast.walk(tree):
            if isinstance(n, (ast.FunctionDef, ast.AsyncFunctionDef)) and not any(isinstance(x, (ast.Yield, ast.YieldFrom)) for x in ast.walk(n)):
                n.body = conv(n.body)
        ast.fix_missing_locations(tree)
        out[p] = ast.unparse(tree)
    return out


def hoist_local_imports(sources: Dict[str, str]) -> Dict[str, str]:
    """Function-level `import` / `from ... import` statements moved to the top of their module (after the existing imports)."""
    out = {}
    for p, s in sources.items():
        tree = ast.parse(s)
        moved = []
        top_names = {a.asname or a.name.split(".")[0] for st in tree.body if isinstance(st, (ast.Import, ast.ImportFrom)) for a in st.names}
        for fn in ast.walk(tree):
            if not isinstance(fn, (ast.FunctionDef, ast.AsyncFunctionDef)):
                continue

            def conv(body):
                res = []
                for st in body:
                    if isinstance(st, (ast.Import, ast.ImportFrom)) and not (isinstance(st, ast.ImportFrom) and st.module == "__future__"):
                        moved.append(st)
                        continue
                    for fld in ("body", "orelse", "finalbody"):
                        sub = getattr(st, fld, None)
                        if isinstance(sub, list) and sub and isinstance(sub[0], ast.stmt) and not isinstance(st, (ast.FunctionDef, ast.AsyncFunctionDef, ast.ClassDef, ast.Try)):
                            new = conv(sub)
                            setattr(st, fld, new or [ast.Pass()])
                    res.append(st)
                return res
            fn.body = conv(fn.body) or [ast.Pass()]
        if moved:
            idx = 0
            for i, st in enumerate(tree.body):
                if isinstance(st, (ast.Import, ast.ImportFrom)) or (i == 0 and isinstance(st, ast.Expr) and isinstance(st.value, ast.Constant)):
                    idx = i + 1
            seen = set()
            uniq = []
            for st in moved:
                k = ast.dump(st)
                if k not in seen:
                    seen.add(k)
                    uniq.append(st)
            tree.body[idx:idx] = uniq
        ast.fix_missing_locations(tree)
        out[p] = ast.unparse(tree)
    return out


def extract_helpers(sources: Dict[str, str]) -> Dict[str, str]:
    """Extract-function refactoring: the right-hand side of every assignment / the value of every return inside a
    function that is a call, an operation or a subscript moves into a new private module-level helper
    `_vt_h<n>(<the local names it reads>)`; the statement calls the helper instead."""
    import builtins
    out = {}
    for p, s in sources.items():
        tree = ast.parse(s)
        new_defs: List[ast.stmt] = []
        counter = [0]

        def local_names(fn) -> set:
            names = {a.arg for a in fn.args.posonlyargs + fn.args.args + fn.args.kwonlyargs}
            if fn.args.vararg:
                names.add(fn.args.vararg.arg)
            if fn.args.kwarg:
                names.add(fn.args.kwarg.arg)
            stack = list(fn.body)
            while stack:
                n = stack.pop()
                if isinstance(n, (ast.FunctionDef, ast.AsyncFunctionDef, ast.ClassDef)):
                    names.add(n.name)
                    continue
                if isinstance(n, ast.Lambda):
                    continue
                if isinstance(n, ast.Name) and isinstance(n.ctx, (ast.Store, ast.Del)):
                    names.add(n.id)
                if isinstance(n, (ast.Import, ast.ImportFrom)):
                    for a in n.names:
                        names.add((a.asname or a.name).split(".")[0])
                if isinstance(n, ast.ExceptHandler) and n.name:
                    names.add(n.name)
                stack.extend(ast.iter_child_nodes(n))
            return names

        def eligible(e) -> bool:
            if not isinstance(e, (ast.Call, ast.BinOp, ast.Subscript, ast.Compare, ast.BoolOp, ast.IfExp)):
                return False
            for n in ast.walk(e):
                if isinstance(n, (ast.Yield, ast.YieldFrom, ast.Await, ast.NamedExpr, ast.Lambda, ast.Starred,
                                  ast.ListComp, ast.SetComp, ast.DictComp, ast.GeneratorExp)):
                    return False
                if isinstance(n, ast.Name) and n.id in ("super", "__class__", "locals", "vars"):
                    return False
            return True

        def visit_fn(fn, outer: set):
            mine = local_names(fn)
            scope = outer | mine
            has_global = any(isinstance(n, (ast.Global, ast.Nonlocal)) for n in ast.walk(fn))

            def handle(stmts):
                for st in stmts:
                    if isinstance(st, (ast.FunctionDef, ast.AsyncFunctionDef)):
                        visit_fn(st, scope)
                        continue
                    if isinstance(st, ast.ClassDef):
                        continue
                    for fld in ("body", "orelse", "finalbody"):
                        sub = getattr(st, fld, None)
                        if isinstance(sub, list) and sub and isinstance(sub[0], ast.stmt):
                            handle(sub)
                    for h in getattr(st, "handlers", []) or []:
                        handle(h.body)
                    if has_global:
                        continue
                    val = st.value if isinstance(st, (ast.Assign, ast.Return)) else None
                    if val is None or not eligible(val):
                        continue
                    free = []
                    for n in ast.walk(val):
                        if isinstance(n, ast.Name) and isinstance(n.ctx, ast.Load) and n.id in scope and n.id not in free:
                            free.append(n.id)
                    counter[0] += 1
                    nm = f"_vt_h{counter[0]}"
                    d = ast.FunctionDef(name=nm, args=ast.arguments(posonlyargs=[], args=[ast.arg(arg=a) for a in free], kwonlyargs=[], kw_defaults=[], defaults=[]),
                                        body=[ast.Return(value=val)], decorator_list=[], type_params=[])
                    new_defs.append(d)
                    st.value = ast.copy_location(ast.Call(func=ast.Name(id=nm, ctx=ast.Load()), args=[ast.Name(id=a, ctx=ast.Load()) for a in free], keywords=[]), val)
            handle(fn.body)

        def top(stmts):
            for st in stmts:
                if isinstance(st, (ast.FunctionDef, ast.AsyncFunctionDef)):
                    visit_fn(st, set())
                elif isinstance(st, ast.ClassDef):
                    top(st.body)
                elif isinstance(st, (ast.If, ast.Try)):
                    for fld in ("body", "orelse", "finalbody"):
                        top(getattr(st, fld, []) or [])
        top(tree.body)
        tree.body.extend(new_defs)
        ast.fix_missing_locations(tree)
        out[p] = ast.unparse(tree)
    return out


def expand_augassign(sources: Dict[str, str]) -> Dict[str, str]:
    """`x op= e` -> `x = x op e` for plain names and `self.attr` targets (immutable-safe forms only: `+=` on a list
    extends in place while `x = x + e` rebinds, so +=, |=, &=, -= are only rewritten when the target is a local that
    was last bound to a number / bool literal or the right-hand side is a number)."""
    out = {}
    for p, s in sources.items():
        tree = ast.parse(s)

        class Tr(ast.NodeTransformer):
            def visit_AugAssign(self, n):
                self.generic_visit(n)
                num = isinstance(n.value, ast.Constant) and isinstance(n.value.value, (int, float)) and not isinstance(n.value.value, bool)
                if not (isinstance(n.target, ast.Name) and num):
                    return n
                load = ast.Name(id=n.target.id, ctx=ast.Load())
                return ast.copy_location(ast.Assign(targets=[n.target], value=ast.BinOp(left=load, op=n.op, right=n.value)), n)
        tree = Tr().visit(tree)
        ast.fix_missing_locations(tree)
        out[p] = ast.unparse(tree)
    return out


def negated_compares(sources: Dict[str, str]) -> Dict[str, str]:
    """`a not in b` -> `not a in b`, `a is not b` -> `not a is b`, `a != b` -> `not a == b` (single-operator comparisons)."""
    out = {}
    for p, s in sources.items():
        tree = ast.parse(s)
        POS = {ast.NotIn: ast.In, ast.IsNot: ast.Is, ast.NotEq: ast.Eq}

        class Tr(ast.NodeTransformer):
            def visit_Compare(self, n):
                self.generic_visit(n)
                if len(n.ops) == 1 and type(n.ops[0]) in POS:
                    inner = ast.Compare(left=n.left, ops=[POS[type(n.ops[0])]()], comparators=n.comparators)
                    return ast.copy_location(ast.UnaryOp(op=ast.Not(), operand=inner), n)
                return n
        tree = Tr().visit(tree)
        ast.fix_missing_locations(tree)
        out[p] = ast.unparse(tree)
    return out


def ifexp_to_statement(sources: Dict[str, str]) -> Dict[str, str]:
    """`x = a if c else b` -> `if c: x = a` / `else: x = b`; `return a if c else b` -> `if c: return a` / `return b`
    (inside functions; single plain-name target)."""
    out = {}
    for p, s in sources.items():
        tree = ast.parse(s)

        def conv(body):
            res = []
            for st in body:
                for fld in ("body", "orelse", "finalbody"):
                    sub = getattr(st, fld, None)
                    if isinstance(sub, list) and sub and isinstance(sub[0], ast.stmt) and not isinstance(st, ast.ClassDef):
                        setattr(st, fld, conv(sub))
                for h in getattr(st, "handlers", []) or []:
                    h.body = conv(h.body)
                if isinstance(st, ast.Assign) and len(st.targets) == 1 and isinstance(st.targets[0], ast.Name) and isinstance(st.value, ast.IfExp) \
                        and not any(isinstance(x, ast.NamedExpr) for x in ast.walk(st.value)):
                    v = st.value
                    a = ast.Assign(targets=[ast.Name(id=st.targets[0].id, ctx=ast.Store())], value=v.body)
                    b = ast.Assign(targets=[ast.Name(id=st.targets[0].id, ctx=ast.Store())], value=v.orelse)
                    res.append(ast.copy_location(ast.If(test=v.test, body=[ast.copy_location(a, st)], orelse=[ast.copy_location(b, st)]), st))
                    continue
                if isinstance(st, ast.Return) and isinstance(st.value, ast.IfExp) and not any(isinstance(x, ast.NamedExpr) for x in ast.walk(st.value)):
                    v = st.value
                    res.append(ast.copy_location(ast.If(test=v.test, body=[ast.copy_location(ast.Return(value=v.body), st)], orelse=[]), st))
                    res.append(ast.copy_location(ast.Return(value=v.orelse), st))
                    continue
                res.append(st)
            return res
        for fn_ in ast.walk(tree):
            if isinstance(fn_, (ast.FunctionDef, ast.AsyncFunctionDef)):
                fn_.body = conv(fn_.body)
        ast.fix_missing_locations(tree)
        out[p] = ast.unparse(tree)
    return out


def _is_submodule(module: str, name: str) -> bool:
    """Is `module.name` a module file / package directory?  Decided on the file system (nothing is imported)."""
    import importlib.util
    import os
    parts = module.split(".")
    try:
        spec = importlib.util.find_spec(parts[0])  # a top-level name: located, not imported
    except (ImportError, AttributeError, ValueError):
        return False
    if spec is None or not spec.submodule_search_locations:
        return False
    for root in spec.submodule_search_locations:
        d = os.path.join(root, *parts[1:])
        if os.path.isdir(os.path.join(d, name)) or any(f == name + ".py" or (f.startswith(name + ".") and f.endswith((".so", ".pyd"))) for f in (os.listdir(d) if os.path.isdir(d) else [])):
            return True
    return False


def qualified_external_imports(sources: Dict[str, str]) -> Dict[str, str]:
    """`from fontTools.misc.transform import Transform` ... `Transform(...)`  ->  `import fontTools.misc.transform as _q_transform`
    ... `_q_transform.Transform(...)` for module-level from-imports of third-party / standard-library modules (names that are
    re-exported, rebound or used as decorators / base classes / in annotations stay as they are)."""
    out = {}
    for p, s in sources.items():
        tree = ast.parse(s)
        stores = {n.id for n in ast.walk(tree) if isinstance(n, ast.Name) and isinstance(n.ctx, (ast.Store, ast.Del))}
        stores |= {a.arg for n in ast.walk(tree) if isinstance(n, (ast.FunctionDef, ast.AsyncFunctionDef, ast.Lambda)) for a in n.args.args + n.args.kwonlyargs + n.args.posonlyargs}
        keep = set()
        for n in ast.walk(tree):
            if isinstance(n, (ast.FunctionDef, ast.AsyncFunctionDef, ast.ClassDef)):
                for d in n.decorator_list + (n.bases if isinstance(n, ast.ClassDef) else []):
                    keep |= {x.id for x in ast.walk(d) if isinstance(x, ast.Name)}
            if isinstance(n, (ast.FunctionDef, ast.AsyncFunctionDef)):
                for a in n.args.args + n.args.kwonlyargs + n.args.posonlyargs:
                    if a.annotation is not None:
                        keep |= {x.id for x in ast.walk(a.annotation) if isinstance(x, ast.Name)}
                if n.returns is not None:
                    keep |= {x.id for x in ast.walk(n.returns) if isinstance(x, ast.Name)}
            if isinstance(n, ast.AnnAssign):
                keep |= {x.id for x in ast.walk(n.annotation) if isinstance(x, ast.Name)}
            if isinstance(n, ast.Assign) and any(isinstance(t, ast.Name) and t.id == "__all__" for t in n.targets):
                keep |= {x.value for x in ast.walk(n.value) if isinstance(x, ast.Constant) and isinstance(x.value, str)}
        is_pkg_init = p.endswith("__init__.py")
        mapping = {}
        new_body = []
        k = 0
        for st in tree.body:
            if isinstance(st, ast.ImportFrom) and st.level == 0 and st.module and not st.module.startswith("ufo2ft") and st.module != "__future__" and not is_pkg_init:
                rest = []
                for a in st.names:
                    local = a.asname or a.name
                    if a.name == "*" or local in stores or local in keep or _is_submodule(st.module, a.name):
                        rest.append(a)
                        continue
                    k += 1
                    alias = f"_q{k}_{st.module.split('.')[-1]}"
                    mapping[local] = (alias, a.name, st.module)
                if rest:
                    new_body.append(ast.copy_location(ast.ImportFrom(module=st.module, names=rest, level=0), st))
                continue
            new_body.append(st)
        if not mapping:
            out[p] = s
            continue
        # `from pkg import submodule` cannot be told from `from pkg import name` here: import the parent and read the attribute
        imports = []
        seen = {}
        for local, (alias, name, module) in mapping.items():
            if module not in seen:
                seen[module] = alias
                imports.append(ast.Import(names=[ast.alias(name=module, asname=alias)]))
            mapping[local] = (seen[module], name, module)

        class Tr(ast.NodeTransformer):
            def visit_Name(self, n):
                if isinstance(n.ctx, ast.Load) and n.id in mapping:
                    alias, name, _ = mapping[n.id]
                    return ast.copy_location(ast.Attribute(value=ast.Name(id=alias, ctx=ast.Load()), attr=name, ctx=ast.Load()), n)
                return n
        # insert after the docstring / __future__ imports
        idx = 0
        while idx < len(new_body) and ((isinstance(new_body[idx], ast.Expr) and isinstance(new_body[idx].value, ast.Constant)) or
                                        (isinstance(new_body[idx], ast.ImportFrom) and new_body[idx].module == "__future__")):
            idx += 1
        tree.body = new_body
        tree = Tr().visit(tree)
        tree.body[idx:idx] = imports
        ast.fix_missing_locations(tree)
        out[p] = ast.unparse(tree)
    return out


def rename_all_locals(sources: Dict[str, str]) -> Dict[str, str]:
    out = {}
    for p, s in sources.items():
        tree = ast.parse(s)
        for fn in ast.walk(tree):
            if isinstance(fn, (ast.FunctionDef, ast.AsyncFunctionDef)):
                mp = _local_renames(fn)
                if mp:
                    r = _Renamer(mp)
                    fn.body = [r.visit(st) if not isinstance(st, (ast.FunctionDef, ast.AsyncFunctionDef, ast.ClassDef)) else st
                               for st in fn.body]
        ast.fix_missing_locations(tree)
        out[p] = ast.unparse(tree)
    return out


# ------------------------------------------------------------------------------- running
def load_sources(root: Optional[str] = None) -> Dict[str, str]:
    root = root or repo_root()
    lib = os.path.join(root, "Lib")
    out = {}
    for dp, dn, fns in os.walk(os.path.join(lib, "ufo2ft")):
        dn[:] = [d for d in dn if d != "__pycache__"]
        for fn in fns:
            if fn.endswith(".py"):
                p = os.path.join(dp, fn)
                with open(p, encoding="utf-8") as f:
                    out[os.path.relpath(p, lib)] = f.read()
    return out


def _signature(chk) -> Tuple:
    return (tuple(sorted(f.key for f in chk.findings)), tuple(chk.errors))


def _run_on(prop: str, overlay: Dict[str, str]):
    from .core.program import Program
    from .__main__ import run_property
    prog = Program(overrides=overlay)
    chk = run_property(prop, "quick", prog, write=False, quiet=True)
    for rule, n in chk.minimums.items():
        if chk.counts.get(rule, 0) < n:
            chk.errors.append(f"rule {rule} matched {chk.counts.get(rule, 0)} < {n}")
    return chk


def _worker(args):
    prop, idx, mdict, base_sig = args
    m = M(**mdict)
    sources = load_sources()
    try:
        if m.old == "<reformat-all>":
            overlay = reformat_all(sources)
        elif m.old == "<rename-all-locals>":
            overlay = rename_all_locals(sources)
        elif m.old == "<annotate-single-assignments>":
            overlay = annotate_single_assignments(sources)
        elif m.old == "<pass-between-statements>":
            overlay = pass_between_statements(sources)
        elif m.old == "<reverse-methods>":
            overlay = sort_methods(sources)
        elif m.old == "<positional-at-call-sites>":
            overlay = positional_at_call_sites(sources)
        elif m.old == "<rename-private-params>":
            overlay = rename_private_params(sources)
        elif m.old == "<alias-self-context>":
            overlay = alias_self_context(sources)
        elif m.old == "<invert-continue-guards>":
            overlay = invert_continue_guards(sources)
        elif m.old == "<temp-before-return>":
            overlay = temp_before_return(sources)
        elif m.old == "<de-morgan-tests>":
            overlay = de_morgan_tests(sources)
        elif m.old == "<swap-equality-operands>":
            overlay = swap_equality_operands(sources)
        elif m.old == "<merge-nested-ifs>":
            overlay = merge_nested_ifs(sources)
        elif m.old == "<empty-literals-as-calls>":
            overlay = empty_literals_as_calls(sources)
        elif m.old == "<hoist-string-keys>":
            overlay = hoist_string_keys(sources)
        elif m.old == "<explain-if-tests>":
            overlay = explain_if_tests(sources)
        elif m.old == "<invert-return-guards>":
            overlay = invert_return_guards(sources)
        elif m.old == "<hoist-local-imports>":
            overlay = hoist_local_imports(sources)
        elif m.old == "<extract-helpers>":
            overlay = extract_helpers(sources)
        elif m.old == "<ifexp-to-statement>":
            overlay = ifexp_to_statement(sources)
        elif m.old == "<qualified-imports>":
            overlay = qualified_external_imports(sources)
        elif m.old == "<expand-augassign>":
            overlay = expand_augassign(sources)
        elif m.old == "<negated-compares>":
            overlay = negated_compares(sources)
        elif m.old == "<keywords-at-call-sites>":
            overlay = keywords_at_call_sites(sources)
        elif m.old == "<swap-if-else>":
            overlay = swap_if_else(sources)
        elif m.old == "<log-at-function-start>":
            overlay = log_at_function_start(sources)
        else:
            if m.file not in sources:
                raise StaleMutant(f"file {m.file} not found")
            overlay = {m.file: apply_mutant(sources[m.file], m)}
            for (f2, fn2, old2, new2) in m.also:
                if f2 not in sources:
                    raise StaleMutant(f"file {f2} not found")
                overlay[f2] = apply_mutant(overlay.get(f2, sources[f2]), M(m.name, f2, fn2, old2, new2))
    except StaleMutant as e:
        return idx, "stale", str(e), []
    except SyntaxError as e:
        return idx, "stale", f"snippet does not parse: {e}", []
    chk = _run_on(prop, overlay)
    sig = _signature(chk)
    new = sorted(set(sig[0]) - set(base_sig[0]))
    errs = [e for e in sig[1] if e not in base_sig[1]]
    if m.kind == "break":
        if new:
            if m.rule and not any(k.startswith(m.rule) for k in new):
                return idx, "wrong-rule", f"reported by {sorted({k.split('|')[0] for k in new})}, expected {m.rule}", new
            return idx, "killed", "", new
        if errs:
            return idx, "killed-as-error", "; ".join(errs)[:300], []
        return idx, "MISSED", "no new finding", []
    else:
        if new or errs or set(base_sig[0]) - set(sig[0]):
            lost = sorted(set(base_sig[0]) - set(sig[0]))
            return idx, "NOISY", f"new={new[:3]} lost={lost[:3]} errors={errs[:2]}", new
        return idx, "silent", "", []


GENERIC = [
    M("reformat every module through ast.unparse", "", None, "<reformat-all>", "", kind="equiv"),
    M("rename every local variable in every function", "", None, "<rename-all-locals>", "", kind="equiv"),
    M("insert a pass statement between every two statements of every function", "", None, "<pass-between-statements>", "", kind="equiv"),
    M("put a logging call at the start of every function", "", None, "<log-at-function-start>", "", kind="equiv"),
    M("positional arguments of package calls written as keywords", "", None, "<keywords-at-call-sites>", "", kind="equiv"),
    M("leading keyword arguments of package calls written positionally", "", None, "<positional-at-call-sites>", "", kind="equiv"),
    M("rename every parameter of every private function / method (keyword arguments at call sites follow)", "", None, "<rename-private-params>", "", kind="equiv"),
    M("alias self.context into a local at the start of every method that only reads it", "", None, "<alias-self-context>", "", kind="equiv"),
    M("loop guards `if c: continue` rewritten as `if not c: <rest of the body>`", "", None, "<invert-continue-guards>", "", kind="equiv"),
    M("every non-trivial return value goes through a temporary (t = E; return t)", "", None, "<temp-before-return>", "", kind="equiv"),
    M("De Morgan: every boolean if / while / conditional test rewritten as the negation of the dual", "", None, "<de-morgan-tests>", "", kind="equiv"),
    M("operands of every == / != comparison swapped", "", None, "<swap-equality-operands>", "", kind="equiv"),
    M("nested ifs merged into `and` and two-operand `and` guards split into nested ifs", "", None, "<merge-nested-ifs>", "", kind="equiv"),
    M("empty displays written as constructor calls ([] -> list(), {} -> dict())", "", None, "<empty-literals-as-calls>", "", kind="equiv"),
    M("string literals used as keys hoisted into module-level constants", "", None, "<hoist-string-keys>", "", kind="equiv"),
    M("every compound if-test moved into an explaining variable on the line before", "", None, "<explain-if-tests>", "", kind="equiv"),
    M("function-level guards `if c: return` rewritten as `if not c: <rest of the body>`", "", None, "<invert-return-guards>", "", kind="equiv"),
    M("function-level imports moved to the top of the module", "", None, "<hoist-local-imports>", "", kind="equiv"),
    M("`a not in b` / `a is not b` / `a != b` written as `not a in b` / `not a is b` / `not a == b`", "", None, "<negated-compares>", "", kind="equiv"),
    M("`n op= <number>` written as `n = n op <number>`", "", None, "<expand-augassign>", "", kind="equiv"),
    M("conditional expressions assigned / returned rewritten as if / else statements", "", None, "<ifexp-to-statement>", "", kind="equiv"),
    M("third-party names imported with `from M import N` used module-qualified instead (`import M as m` ... `m.N`)", "", None, "<qualified-imports>", "", kind="equiv"),
    M("extract function: every computed right-hand side / return value moved into a new private module-level helper", "", None, "<extract-helpers>", "", kind="equiv"),
    M("methods of every class in reverse source order", "", None, "<reverse-methods>", "", kind="equiv"),
    M("swap the branches of every plain if/else under the negated test", "", None, "<swap-if-else>", "", kind="equiv"),
    M("annotate every local that is assigned once (x = v  ->  x: object = v)", "", None, "<annotate-single-assignments>", "", kind="equiv"),
]


def corpus(prop: str) -> List[M]:
    mod = importlib.import_module(f"vt.rules.{prop.lower()}")
    return list(getattr(mod, "MUTANTS", [])) + GENERIC


def run_selftest(prop: str, seed: int = 0, jobs: int = 16) -> dict:
    ms = corpus(prop)
    rnd = random.Random(seed)
    order = list(range(len(ms)))
    rnd.shuffle(order)
    base = _run_on(prop, {})
    base_sig = _signature(base)
    tasks = [(prop, i, ms[i].__dict__, base_sig) for i in order]
    results = {}
    with ProcessPoolExecutor(max_workers=min(jobs, max(1, len(tasks)))) as ex:
        for idx, status, detail, new in ex.map(_worker, tasks):
            results[idx] = (status, detail, new)
    rep = {"breaking": [], "equivalent": [], "failed": [], "order_seed": seed}
    n_break = n_break_applied = 0
    for i, m in enumerate(ms):
        status, detail, new = results[i]
        row = {"edit": m.name, "where": f"{m.file}:{m.func}" if m.file else "whole package", "status": status}
        if detail:
            row["detail"] = detail
        if new:
            row["reported"] = new[:4]
        if m.kind == "break":
            n_break += 1
            rep["breaking"].append(row)
            if status in ("killed", "wrong-rule"):
                n_break_applied += 1
            if status == "killed-as-error":
                n_break_applied += 1
            if status == "MISSED":
                rep["failed"].append(f"breaking edit not reported: {m.name}")
            if status == "wrong-rule":
                rep["failed"].append(f"breaking edit reported by an unexpected rule: {m.name} ({detail})")
        else:
            rep["equivalent"].append(row)
            if status == "NOISY":
                rep["failed"].append(f"equivalent edit changed the verdict: {m.name} ({detail})")
    rep["summary"] = {
        "breaking_total": n_break,
        "breaking_reported": sum(1 for r in rep["breaking"] if r["status"] in ("killed", "killed-as-error")),
        "breaking_stale": sum(1 for r in rep["breaking"] if r["status"] == "stale"),
        "equivalent_total": len(rep["equivalent"]),
        "equivalent_silent": sum(1 for r in rep["equivalent"] if r["status"] == "silent"),
        "equivalent_stale": sum(1 for r in rep["equivalent"] if r["status"] == "stale"),
    }
    if n_break and n_break_applied * 2 < n_break:
        rep["failed"].append(f"only {n_break_applied} of {n_break} breaking edits still apply to this tree: corpus is stale")
    return rep


if __name__ == "__main__":  # python -m vt.selftest C03
    import json
    props = sys.argv[1:] or []
    for p in props:
        r = run_selftest(p.upper())
        print(json.dumps(r, indent=1))
