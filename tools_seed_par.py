#!/venv/bin/python
"""Re-runs every kept seed against the current checks, in parallel, on scratch copies of /repo/Lib (never touches /repo).
usage: tools_seed_par.py [all]   - with `all`, every property's check is run on every seed (which rules could be shared?)
Scratch copies live under /tmp/seedpar and are removed as soon as a seed is done."""
import json, os, shutil, subprocess, sys
from concurrent.futures import ProcessPoolExecutor
ALL = len(sys.argv) > 1 and sys.argv[1] == "all"
SEEDS = sorted(d for d in os.listdir("/verif/seeded") if os.path.isdir(f"/verif/seeded/{d}"))


def one(name):
    prop = name[:3]
    root = f"/tmp/seedpar/{name}"
    shutil.rmtree(root, ignore_errors=True)
    os.makedirs(root)
    shutil.copytree("/repo/Lib", f"{root}/Lib")
    p = subprocess.run(["patch", "-p1", "-s", "-d", root, "-i", f"/verif/seeded/{name}/patch.diff"], capture_output=True, text=True)
    if p.returncode != 0:
        shutil.rmtree(root, ignore_errors=True)
        return name, prop, None, f"patch failed: {p.stdout[:100]}{p.stderr[:100]}", []
    c = subprocess.run(f"cd /verif && /venv/bin/python -m vt {'all' if ALL else prop} --tier quick --no-write --repo {root}", shell=True, capture_output=True, text=True)
    out = c.stdout.splitlines()
    props = sorted({l.split("property=")[1].split()[0] for l in out if l.startswith("VIOLATION")})
    rules = sorted({l.split("rule=")[1].split()[0] for l in out if l.strip().startswith("rule=")})
    shutil.rmtree(root, ignore_errors=True)
    return name, prop, c.returncode, " ".join(rules), props


if __name__ == "__main__":
    os.makedirs("/tmp/seedpar", exist_ok=True)
    missed = []
    with ProcessPoolExecutor(14) as ex:
        for name, prop, rc, rules, props in ex.map(one, SEEDS):
            own = prop in props if ALL else rc == 1
            print(f"{name} {prop} exit={rc} own={'yes' if own else 'NO'} {rules[:90]} {'others=' + ','.join(p for p in props if p != prop) if ALL else ''}", flush=True)
            if not own and name != "C07a":
                missed.append(name)
    shutil.rmtree("/tmp/seedpar", ignore_errors=True)
    print("NOT DETECTED:", missed)
