#!/venv/bin/python
"""Re-run the property's quick check with a filed seed applied to /repo (reverted
afterwards) and record the outcome in the seed's meta.json under 'recheck'.
usage: tools_seed_recheck.py <name> [note]"""
import json, subprocess, sys
name = sys.argv[1]
note = sys.argv[2] if len(sys.argv) > 2 else ""
d = f"/verif/seeded/{name}"
meta = json.load(open(f"{d}/meta.json"))
def sh(c):
    return subprocess.run(c, shell=True, capture_output=True, text=True)
assert sh("git -C /repo status --porcelain").stdout.strip() == "", "/repo is dirty"
a = sh(f"git -C /repo apply {d}/patch.diff"); assert a.returncode == 0, a.stderr
try:
    c = sh(f"cd /verif && /venv/bin/python -m vt {meta['property']} --tier quick --no-write")
    lines = [l for l in c.stdout.splitlines() if l.startswith("VIOLATION") or l.strip().startswith("rule=")]
finally:
    sh("git -C /repo checkout -- .")
meta["recheck"] = {"repo_commit": sh("git -C /repo rev-parse --short HEAD").stdout.strip(), "exit": c.returncode, "report": lines[:8], "note": note}
meta["detected_after_strengthening"] = c.returncode == 1
json.dump(meta, open(f"{d}/meta.json", "w"), indent=1)
print(name, "exit", c.returncode, *lines[:4], sep="\n")
