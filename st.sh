#!/bin/sh
# usage: ./st.sh C12   -> prints the self-validation table for one property
/venv/bin/python -m vt.selftest "$1" | /venv/bin/python -c "
import json,sys; r=json.load(sys.stdin)
for k in ('breaking','equivalent'):
    for row in r[k]:
        if row['status'] not in ('killed','silent'): print(k, row['status'], '|', row['edit'], '|', row.get('detail',''), row.get('reported',''))
print(r['summary']); print('FAILED:', r['failed'])"
