#!/bin/bash
# usage: tools_try.sh <relative file under Lib/ufo2ft> <sed expression> [props]   -- calibration helper: one ad-hoc edit on a scratch copy
set -e
rm -rf /tmp/try; mkdir -p /tmp/try; cp -r /repo/Lib /tmp/try/Lib
sed -i "$2" /tmp/try/Lib/ufo2ft/$1
diff -r /repo/Lib/ufo2ft /tmp/try/Lib/ufo2ft | head -20
cd /verif && /venv/bin/python -m vt ${3:-all} --tier quick --no-write --repo /tmp/try | grep -v "exit 0\|KNOWN-FINDING" || true
rm -rf /tmp/try
