#!/venv/bin/python
"""Regenerates the status table of DESIGN.md §9.1 from the evidence files of the last run (documentation helper)."""
import glob, importlib, json, sys
sys.path.insert(0, "/verif")
rows = []
for f in sorted(glob.glob("/verif/evidence/C*.json")):
    e = json.load(open(f))
    c = e["coverage"]
    p = e["property_id"]
    import re
    def rk(r):
        m = re.match(r"R(\d+)\.(\d+)(.*)", r)
        return (int(m.group(1)), int(m.group(2)), m.group(3)) if m else (999, 999, r)
    rules = sorted(c.get("per_rule", {}), key=rk)
    mod = importlib.import_module(f"vt.rules.{p.lower()}")
    muts = getattr(mod, "MUTANTS", [])
    nb = sum(1 for m in muts if m.kind == "break")
    ne = sum(1 for m in muts if m.kind != "break")
    from vt.selftest import GENERIC
    rows.append(f"| {p} | {c['obligations']} ({c['distinct_nontrivial']}) | {rules[0]}–{rules[-1]} ({len(rules)} groups) | {nb} / {ne} + {len(GENERIC)} generic |")
print("| id | obligations on today's tree (distinct non-trivial) | rule groups | self-validation edits (breaking / equivalent) |")
print("|----|------|----|----|")
print("\n".join(rows))

# write the table into DESIGN.md §9.1 (it used to be pasted by hand)
tab = "| id | obligations on today's tree (distinct non-trivial) | rule groups | self-validation edits (breaking / equivalent) |\n|----|------|----|----|\n" + "\n".join(rows)
d = open("/verif/DESIGN.md").read()
i = d.index("| id | obligations on today's tree (distinct non-trivial) | rule groups |")
lines = d[i:].split("\n")
k = 0
while k < len(lines) and lines[k].startswith("|"):
    k += 1
d = d[:i] + tab + d[i + len("\n".join(lines[:k])):]
open("/verif/DESIGN.md", "w").write(d)
