#!/venv/bin/python
"""Writes the prompt for a seeding sub-agent (property text only, nothing from /verif's
machinery) and creates its scratch worktree.  usage: tools_seedprompt.py <prop> <name> [extra constraint]"""
import json, subprocess, sys, os
prop, name = sys.argv[1:3]
extra = sys.argv[3] if len(sys.argv) > 3 else ""
p = [json.loads(l) for l in open("/verif/properties.jsonl") if json.loads(l)["id"] == prop][0]
wt = f"/tmp/wt_{name}"
subprocess.run(f"git -C /repo worktree remove --force {wt}; git -C /repo worktree add -q --detach {wt} HEAD", shell=True)
os.makedirs("/tmp/seed_out", exist_ok=True)
files = ", ".join(p["anchors"].get("files", []))
txt = f"""You are helping evaluate a verification effort for the open-source Python library googlefonts/ufo2ft (compiles UFO font sources into OpenType fonts). You have your OWN scratch git worktree of the library at {wt} (library code in {wt}/Lib/ufo2ft, tests in {wt}/tests). Work ONLY inside {wt} and /tmp/seed_out/{name}; never touch /repo or /verif and do not read anything under /verif.

Here is a semantic property the library is supposed to satisfy:

ID: {prop} - {p['title']}
STATEMENT: {p['statement']}
QUANTIFIED OVER: {p['quantifier']['text']}
WHY THE EXISTING TESTS CANNOT SETTLE IT: {p['why_tests_cant']}
Relevant files (relative to the worktree): {files}

YOUR TASK: produce ONE realistic change to the library code (Lib/ufo2ft only, not the tests) that BREAKS this property while the package still imports and the ENTIRE existing test suite still passes. The change should look like something a maintainer could plausibly commit (a refactor, an "optimisation", a feature tweak, a bug-fix gone wrong) - not sabotage comments, not dead code. Prefer a change that needs something specific to manifest - an unusual input, a particular option combination, a multi-step sequence of calls (e.g. compiling twice, reusing an object), or two cooperating sites that each look fine alone - rather than something ordinary use would expose at once.

How to run things (the sandbox has no network):
- run the test suite against your worktree:  cd {wt} && PYTHONPATH={wt}/Lib /venv/bin/python -m pytest -q -p no:cacheprovider -n 16 --timeout=600 tests     (baseline: 1148 passed; make sure `python -c "import ufo2ft; print(ufo2ft.__file__)"` with that PYTHONPATH points into your worktree)
- test fonts live in {wt}/tests/data; ufoLib2 and defcon are installed in /venv.

DELIVERABLES, all in the directory /tmp/seed_out/{name} (create it):
1. patch.diff  - output of `git -C {wt} diff` for your change (library code only).
2. demo.py     - a self-contained script, run as `PYTHONPATH=<tree>/Lib /venv/bin/python demo.py`, that exits 0 and prints PASS on the unchanged library and exits 1 and prints FAIL on the changed one, by observing the property's behaviour (not by inspecting source text). It must not depend on your worktree path (use tests data via a path relative to an environment variable UFO2FT_TREE, defaulting to /repo, e.g. os.path.join(os.environ.get("UFO2FT_TREE","/repo"),"tests","data",...)).
3. notes.md    - 5-15 lines: what you changed and why it looks plausible, what exactly is needed for the breakage to manifest, and the commands you ran with their results (suite result with the change; demo result with and without the change - do NOT use `git stash` (the stash is shared by all worktrees of the repository and other people work in sibling worktrees): to test without the change run `git -C {wt} diff > /tmp/seed_out/{name}/patch.diff && git -C {wt} apply -R /tmp/seed_out/{name}/patch.diff`, run the demo, then `git -C {wt} apply /tmp/seed_out/{name}/patch.diff` to put it back).

Before finishing, verify yourself: (a) full suite passes WITH the change (1148 passed), (b) demo.py fails WITH the change and passes WITHOUT it. Leave the worktree with the change applied. If your first idea gets caught by the test suite, try another. Report back a short summary (what you changed, in which file/function, and what is needed to trigger it).
"""
if extra:
    txt += f"\nADDITIONAL CONSTRAINT: {extra}\n"
open(f"/tmp/seed_out/prompt_{name}.txt", "w").write(txt)
print(f"/tmp/seed_out/prompt_{name}.txt")
