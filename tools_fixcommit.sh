#!/bin/sh
# usage: tools_fixcommit.sh <message-file>   (run with /repo dirty)
# Runs the unedited suite; commits in /repo only if exactly the baseline passes.
cd /repo || exit 1
out=$(/venv/bin/python -m pytest -q -p no:cacheprovider -n 16 --timeout=900 tests 2>&1 | tail -1)
echo "$out"
case "$out" in
  "1148 passed"*) git add -A && git commit -q -F "$1" && git log --oneline | head -1 ;;
  *) echo "SUITE DOES NOT PASS - not committing"; exit 1 ;;
esac
