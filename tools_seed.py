#!/venv/bin/python
"""Confirm a seeded change and file it under /verif/seeded/<name>/.

usage: tools_seed.py <src_dir with patch.diff demo.py notes.md> <name e.g. C03a> <property id> "<needs>"

Steps (all against a scratch worktree under /tmp, removed afterwards; /repo is only
touched by `git apply` + `git checkout -- .` around the static check):
 1. demo passes on the unchanged tree
 2. patch applies; suite passes with it (1148); demo fails with it
 3. the property's quick check on /repo with the patch applied: records exit code and VIOLATION lines
"""
import json, os, shutil, subprocess, sys, time

src, name, prop, needs = sys.argv[1:5]
wt = f"/tmp/wt_verify_{name}"
def sh(cmd, **kw):
    return subprocess.run(cmd, shell=True, capture_output=True, text=True, **kw)
sh(f"git -C /repo worktree remove --force {wt}")
r = sh(f"git -C /repo worktree add -q --detach {wt} HEAD"); assert r.returncode == 0, r.stderr
env = dict(os.environ, PYTHONPATH=f"{wt}/Lib", UFO2FT_TREE=wt)
meta = {"name": name, "property": prop, "needs_to_manifest": needs, "base_commit": sh("git -C /repo rev-parse --short HEAD").stdout.strip(), "ran": []}
try:
    d0 = subprocess.run(["/venv/bin/python", os.path.join(src, "demo.py")], capture_output=True, text=True, env=env, cwd="/tmp")
    meta["ran"].append({"cmd": "demo.py on unchanged tree", "exit": d0.returncode, "tail": d0.stdout.strip()[-200:]})
    a = sh(f"git -C {wt} apply {src}/patch.diff"); assert a.returncode == 0, a.stderr
    t = subprocess.run("/venv/bin/python -m pytest -q -p no:cacheprovider -n 16 --timeout=900 tests 2>&1 | tail -1", shell=True, capture_output=True, text=True, env=env, cwd=wt)
    meta["ran"].append({"cmd": "pytest tests (with change)", "tail": t.stdout.strip()})
    d1 = subprocess.run(["/venv/bin/python", os.path.join(src, "demo.py")], capture_output=True, text=True, env=env, cwd="/tmp")
    meta["ran"].append({"cmd": "demo.py with change", "exit": d1.returncode, "tail": d1.stdout.strip()[-300:]})
    ok = d0.returncode == 0 and d1.returncode != 0 and t.stdout.strip().startswith("1148 passed")
    meta["confirmed"] = ok
finally:
    sh(f"git -C /repo worktree remove --force {wt}")
# static check against /repo with the patch applied
assert sh("git -C /repo status --porcelain").stdout.strip() == "", "/repo is dirty"
a = sh(f"git -C /repo apply {src}/patch.diff"); assert a.returncode == 0, a.stderr
try:
    c = sh(f"cd /verif && /venv/bin/python -m vt {prop} --tier quick --no-write")
    lines = [l for l in c.stdout.splitlines() if l.startswith("VIOLATION") or l.strip().startswith("rule=")]
    meta["check"] = {"cmd": f"/venv/bin/python -m vt {prop} --tier quick (patch applied to /repo, then reverted)", "exit": c.returncode, "report": lines[:12]}
finally:
    sh("git -C /repo checkout -- .")
assert sh("git -C /repo status --porcelain").stdout.strip() == ""
meta["detected"] = meta["check"]["exit"] == 1
print(json.dumps(meta, indent=1))
if meta.get("confirmed"):
    dst = f"/verif/seeded/{name}"
    os.makedirs(dst, exist_ok=True)
    for f in ("patch.diff", "demo.py", "notes.md"):
        if os.path.exists(os.path.join(src, f)):
            shutil.copy(os.path.join(src, f), os.path.join(dst, f))
    json.dump(meta, open(os.path.join(dst, "meta.json"), "w"), indent=1)
    print("filed under", dst)
else:
    print("NOT CONFIRMED - not filed")
