#!/venv/bin/python
"""Calibration helper: re-run the static checks on recorded mutscan survivors (no suite run).
usage: tools_mutrecheck.py <run.jsonl> [k ...]   (default: every survivor nobody reported or with analysis errors)"""
import json, os, shutil, subprocess, sys
sys.argv, argv = [sys.argv[0], "0", "0", "/dev/null"], sys.argv
src = open("/verif/tools_mutscan.py").read().replace("\nmain()\n", "\n")
exec(compile(src, "tools_mutscan", "exec"))
recs = [json.loads(l) for l in open(argv[1])]
ks = {int(k) for k in argv[2:]}
todo = [r for r in recs if r["survived"] and ((r["k"] in ks) if ks else (not r.get("reported_by") or r.get("analysis_error")))]
cache = {}
for r in todo:
    path = os.path.join(REPO, r["file"])
    if path not in cache:
        cache[path] = sites_of(path)
    m = [s for s in cache[path] if s.kind == r["kind"] and s.lineno == r["line"] and s.desc == r["desc"]]
    if not m:
        print(r["k"], "site not found any more"); continue
    root = "/tmp/mutrecheck"
    shutil.rmtree(root, ignore_errors=True); os.makedirs(root)
    shutil.copytree(os.path.join(REPO, "Lib"), os.path.join(root, "Lib"))
    open(os.path.join(root, r["file"]), "w").write(m[0].apply())
    c = subprocess.run(f"cd /verif && /venv/bin/python -m vt all --tier quick --no-write --repo {root}", shell=True, capture_output=True, text=True)
    hits = sorted({l.split("property=")[1].split()[0] for l in c.stdout.splitlines() if l.startswith("VIOLATION")})
    errs = sorted({l.split("property=")[1].split()[0] for l in c.stdout.splitlines() if l.startswith("ANALYSIS-ERROR")})
    rules = sorted({l.split("rule=")[1].split()[0] for l in c.stdout.splitlines() if l.strip().startswith("rule=")})
    print(r["k"], r["file"].split("ufo2ft/")[-1], r["line"], r["kind"], r["desc"][:60], "->", hits, rules, "err=", errs, flush=True)
    shutil.rmtree(root, ignore_errors=True)
