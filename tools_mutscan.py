#!/venv/bin/python
"""Calibration, not a check: mass single-site mutation of /repo/Lib/ufo2ft on scratch copies.
For every mutant that the repository's own suite lets through (a *survivor*), run all
static checks against the mutated tree and record which properties report it.
Survivors nobody reports are printed for manual triage (many are equivalent or irrelevant
to the 20 properties; the rest are gaps).

usage: tools_mutscan.py <n_mutants> <seed> <out.jsonl> [kind=<k1,k2>] [file-substring ...]
Scratch copies live under /tmp/mutscan and are removed as soon as a mutant is done."""
import ast, json, os, random, shutil, subprocess, sys

N, SEED, OUT = int(sys.argv[1]), int(sys.argv[2]), sys.argv[3]
ONLY = [a for a in sys.argv[4:] if not a.startswith("kind=")]
KINDS = [k for a in sys.argv[4:] if a.startswith("kind=") for k in a[5:].split(",")]
REPO = "/repo"
LIB = os.path.join(REPO, "Lib", "ufo2ft")
SCRATCH = "/tmp/mutscan"


def T(n):
    return ast.unparse(n)


class Site:
    def __init__(self, path, kind, lineno, desc, apply):
        self.path, self.kind, self.lineno, self.desc, self.apply = path, kind, lineno, desc, apply


def sites_of(path):
    src = open(path).read()
    tree = ast.parse(src)
    out = []
    parents = {}
    for n in ast.walk(tree):
        for c in ast.iter_child_nodes(n):
            parents[c] = n

    def in_noise(n):
        cur = n
        while cur in parents:
            cur = parents[cur]
            if isinstance(cur, ast.Raise):
                return True
            if isinstance(cur, ast.Call) and isinstance(cur.func, ast.Attribute) and cur.func.attr in ("debug", "info", "warning", "error", "warn"):
                return True
            if isinstance(cur, (ast.FunctionDef,)) and cur.name in ("__repr__", "__str__"):
                return True
        return False

    idx = {id(n): i for i, n in enumerate(ast.walk(tree))}

    def mk(kind, node, desc, mutate):
        i = idx[id(node)]

        def apply():
            t = ast.parse(src)
            target = list(ast.walk(t))[i]
            mutate(target)
            ast.fix_missing_locations(t)
            txt = ast.unparse(t)
            if '_ident_' in txt:
                txt = txt + '\n\ndef _ident_(x):\n    return x\n'
            return txt
        out.append(Site(path, kind, getattr(node, "lineno", 0), desc, apply))

    for n in ast.walk(tree):
        if in_noise(n):
            continue
        if isinstance(n, ast.If) and not isinstance(n.test, ast.Constant):
            def m(t):
                t.test = ast.UnaryOp(op=ast.Not(), operand=t.test)
            mk("negate-if", n, f"if not ({T(n.test)[:60]})", m)
        if isinstance(n, ast.Compare) and len(n.ops) == 1:
            swap = {ast.Lt: ast.LtE, ast.LtE: ast.Lt, ast.Gt: ast.GtE, ast.GtE: ast.Gt, ast.Eq: ast.NotEq, ast.NotEq: ast.Eq, ast.Is: ast.IsNot, ast.IsNot: ast.Is, ast.In: ast.NotIn, ast.NotIn: ast.In}
            if type(n.ops[0]) in swap:
                new = swap[type(n.ops[0])]

                def m(t, new=new):
                    t.ops = [new()]
                mk("cmp-swap", n, f"{T(n)[:60]} -> {new.__name__}", m)
        if isinstance(n, ast.BoolOp):
            def m(t):
                t.op = ast.Or() if isinstance(t.op, ast.And) else ast.And()
            mk("and-or", n, T(n)[:70], m)
        if isinstance(n, ast.Expr) and isinstance(n.value, ast.Call) and not in_noise(n.value):
            par = parents.get(n)
            body = getattr(par, "body", None)
            if isinstance(par, (ast.FunctionDef, ast.If, ast.For, ast.With, ast.While, ast.Try)) and T(n.value.func).split(".")[-1] not in ("debug", "info", "warning", "error"):
                def m(t):
                    t.value = ast.Constant(value=None)
                mk("del-call", n, f"delete `{T(n)[:70]}`", m)
        if isinstance(n, ast.Call) and isinstance(n.func, ast.Name) and n.func.id == "sorted" and len(n.args) == 1 and not n.keywords:
            def m(t):
                t.func = ast.Name(id="list", ctx=ast.Load())
            mk("unsort", n, f"sorted -> list: {T(n)[:60]}", m)
        if isinstance(n, ast.Call) and len(n.args) >= 2 and all(isinstance(a, (ast.Name, ast.Attribute)) for a in n.args[:2]) and T(n.args[0]) != T(n.args[1]):
            def m(t):
                t.args[0], t.args[1] = t.args[1], t.args[0]
            mk("swap-args", n, f"swap first two args of {T(n)[:60]}", m)
        if isinstance(n, ast.Constant) and isinstance(n.value, bool) and not isinstance(parents.get(n), ast.keyword):
            def m(t):
                t.value = not t.value
            mk("flip-bool", n, f"{n.value} -> {not n.value} (line {n.lineno})", m)
        if isinstance(n, ast.Constant) and isinstance(n.value, int) and not isinstance(n.value, bool) and n.value in (0, 1, 2):
            def m(t):
                t.value = t.value + 1
            mk("const+1", n, f"{n.value} -> {n.value + 1} (line {n.lineno})", m)
        if isinstance(n, ast.BinOp) and isinstance(n.op, (ast.Add, ast.Sub)) and not isinstance(n.left, ast.Constant):
            def m(t):
                t.op = ast.Sub() if isinstance(t.op, ast.Add) else ast.Add()
            mk("plus-minus", n, T(n)[:70], m)
        # --- second-generation operators (realistic regressions rather than arithmetic noise)
        if isinstance(n, ast.Call) and len(n.args) == 1 and not n.keywords and T(n.func) in ("list", "dict", "set", "copy.copy", "copy.deepcopy", "deepcopy", "copy", "tuple", "frozenset"):
            def m(t):
                t.func = ast.Name(id="_ident_", ctx=ast.Load())
            mk("drop-copy", n, f"{T(n)[:60]} -> argument itself", m)
        if isinstance(n, ast.Call) and isinstance(n.func, ast.Attribute) and n.func.attr in ("copy",) and not n.args:
            def m(t):
                t.func = ast.Name(id="_ident_", ctx=ast.Load())
                t.args = [n.func.value]
            mk("drop-copy", n, f"{T(n)[:60]} -> receiver itself", m)
        if isinstance(n, (ast.Assign, ast.AugAssign)) and isinstance(parents.get(n), (ast.FunctionDef, ast.If, ast.For, ast.With, ast.While, ast.Try)):
            tg = n.targets[0] if isinstance(n, ast.Assign) else n.target
            if isinstance(tg, (ast.Attribute, ast.Subscript)) or isinstance(n, ast.AugAssign):
                def m(t):
                    t.value = t.value
                    t.__class__ = ast.Pass
                    t._fields = ()
                mk("del-store", n, f"delete `{T(n)[:70]}`", m)
        if isinstance(n, ast.Call) and n.keywords and not in_noise(n):
            for ki, kw in enumerate(n.keywords):
                if kw.arg is None:
                    continue

                def m(t, ki=ki):
                    del t.keywords[ki]
                mk("drop-kwarg", n, f"drop {kw.arg}= from {T(n.func)[:40]}", m)
        if isinstance(n, ast.UnaryOp) and isinstance(n.op, ast.Not) and not isinstance(parents.get(n), ast.If):
            def m(t):
                t.op = ast.UAdd()
                t.operand = ast.Call(func=ast.Name(id="bool", ctx=ast.Load()), args=[t.operand], keywords=[])
            mk("drop-not", n, f"{T(n)[:60]}", m)
        if isinstance(n, (ast.Continue, ast.Break)):
            def m(t):
                t.__class__ = ast.Pass
            mk("del-jump", n, f"{type(n).__name__.lower()} -> pass (line {n.lineno})", m)
        if isinstance(n, ast.Return) and n.value is not None and not isinstance(n.value, ast.Constant) and isinstance(parents.get(n), ast.If):
            pass
        if isinstance(n, ast.Subscript) and isinstance(n.slice, ast.Constant) and isinstance(n.slice.value, int) and n.slice.value in (0, 1, -1) and isinstance(n.ctx, ast.Load):
            def m(t):
                t.slice = ast.Constant(value={0: -1, 1: 0, -1: 0}[t.slice.value])
            mk("index", n, f"{T(n)[:50]} other end", m)
    return out


def main():
    files = []
    for dp, dn, fn in os.walk(LIB):
        for f in fn:
            if f.endswith(".py") and f != "_version.py":
                p = os.path.join(dp, f)
                if not ONLY or any(o in p for o in ONLY):
                    files.append(p)
    all_sites = []
    for p in sorted(files):
        try:
            all_sites += sites_of(p)
        except SyntaxError:
            pass
    if KINDS:
        all_sites = [x for x in all_sites if x.kind in KINDS]
    rnd = random.Random(SEED)
    rnd.shuffle(all_sites)
    chosen = all_sites[:N]
    print(f"{len(all_sites)} sites, running {len(chosen)}", flush=True)
    os.makedirs(SCRATCH, exist_ok=True)
    with open(OUT, "a") as out:
        for k, s in enumerate(chosen):
            root = os.path.join(SCRATCH, f"m{SEED}_{k}")
            shutil.rmtree(root, ignore_errors=True)
            os.makedirs(root)
            shutil.copytree(os.path.join(REPO, "Lib"), os.path.join(root, "Lib"))
            rel = os.path.relpath(s.path, REPO)
            try:
                new = s.apply()
                compile(new, rel, "exec")
            except Exception as e:
                shutil.rmtree(root, ignore_errors=True)
                continue
            open(os.path.join(root, rel), "w").write(new)
            env = dict(os.environ, PYTHONPATH=os.path.join(root, "Lib"))
            t = subprocess.run("/venv/bin/python -m pytest -x -q -p no:cacheprovider -n 16 --timeout=600 tests 2>&1 | tail -1", shell=True, capture_output=True, text=True, env=env, cwd="/repo")
            last = t.stdout.strip()
            survived = last.startswith("1148 passed")
            rec = {"k": k, "file": rel, "line": s.lineno, "kind": s.kind, "desc": s.desc, "suite": last[:60], "survived": survived}
            if survived:
                c = subprocess.run(f"cd /verif && /venv/bin/python -m vt all --tier quick --no-write --repo {root}", shell=True, capture_output=True, text=True)
                hits = sorted({l.split("property=")[1].split()[0] for l in c.stdout.splitlines() if l.startswith("VIOLATION")})
                errs = sorted({l.split("property=")[1].split()[0] for l in c.stdout.splitlines() if l.startswith("ANALYSIS-ERROR")})
                rec["reported_by"] = hits
                rec["analysis_error"] = errs
            out.write(json.dumps(rec) + "\n")
            out.flush()
            print(k, rec["kind"], rel.split("/")[-1], s.lineno, "SURVIVED " + str(rec.get("reported_by")) + " err=" + str(rec.get("analysis_error")) if survived else "killed", flush=True)
            shutil.rmtree(root, ignore_errors=True)


main()
