#!/venv/bin/python
"""Re-run every filed seed against its property's quick check (patch applied to /repo,
reverted afterwards) and write seeded/STATUS.md.  /repo must be clean."""
import json, glob, subprocess, os
def sh(c):
    return subprocess.run(c, shell=True, capture_output=True, text=True)
assert sh("git -C /repo status --porcelain").stdout.strip() == "", "/repo is dirty"
rows = []
for mp in sorted(glob.glob("/verif/seeded/*/meta.json")):
    d = os.path.dirname(mp)
    m = json.load(open(mp))
    a = sh(f"git -C /repo apply {d}/patch.diff")
    if a.returncode != 0:
        rows.append((m["name"], m["property"], "patch does not apply", "", ""))
        continue
    try:
        c = sh(f"cd /verif && /venv/bin/python -m vt {m['property']} --tier quick --no-write")
    finally:
        sh("git -C /repo checkout -- .")
    rules = sorted({l.split("rule=")[1].split(" ")[0] for l in c.stdout.splitlines() if "rule=" in l})
    first = "caught" if m.get("detected") else ("analysis-error (exit 2)" if m.get("check", {}).get("exit") == 2 else "missed")
    note = m.get("history") or (m.get("recheck") or {}).get("note", "")
    rows.append((m["name"], m["property"], first, f"exit {c.returncode} {' '.join(rules)}", note))
    m["last_run"] = {"exit": c.returncode, "rules": rules}
    json.dump(m, open(mp, "w"), indent=1)
with open("/verif/seeded/STATUS.md", "w") as f:
    f.write("| seed | property | first run of the check | today | note |\n|---|---|---|---|---|\n")
    for r in rows:
        f.write("| " + " | ".join(x.replace("|", "/") for x in r) + " |\n")
for r in rows:
    print(r[0], r[1], r[2], "->", r[3])
